//go:build verif

// Contracts for package internal, checked by /verif/bin/govc (see /verif/DESIGN.md).
// This file contains comments only: with the `verif` tag off it is not part of
// the package; with it on it adds no code.
package internal

// ---- byte classes (C03) -----------------------------------------------------
//@ func isHexDigit
//@   property C03
//@   pure
//@   ensures result == ((c >= '0' && c <= '9') || (c >= 'A' && c <= 'F') || (c >= 'a' && c <= 'f'))  # name: exact

//@ func fromHex
//@   property C03
//@   pure
//@   ensures c >= '0' && c <= '9' ==> result == c - '0'            # name: digit
//@   ensures c >= 'a' && c <= 'f' ==> result == c - 'a' + 10       # name: lower
//@   ensures c >= 'A' && c <= 'F' ==> result == c - 'A' + 10       # name: upper
//@   ensures result <= 15                                          # name: nibble

//@ func isStaleErrorAllowed
//@   property C13
//@   pure
//@   ensures result == (code == 500 || code == 502 || code == 503 || code == 504)   # name: exact

//@ func IsNonErrorStatus
//@   property C07
//@   pure
//@   ensures result == (status >= 200 && status < 400)   # name: exact
