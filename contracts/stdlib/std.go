//go:build verif

// Assumed contracts on the Go standard library (DESIGN.md 0C). Every block
// here is TRUSTED: it is an assumption, listed in the evidence of each check
// that uses it; the behavioural ones are exercised on every run by the bounded
// conformance harness in /verif/conformance (DESIGN.md 0A), which can refute
// but never prove them.
package stdlibspec

// ---------------------------------------------------------------------------
// time: ghost ns(t) = nanoseconds since year 1 as a signed 80-bit vector.
// Assumption: every time.Time the code meets lies within +-2^70 ns (about
// 37,000 years) of year 1, so 80-bit differences never wrap. time.Time.Sub
// saturates to int64 exactly as the standard library documents.
//@ smt (declare-sort O$time.Time 0)
//@ smt (declare-fun ns (O$time.Time) (_ BitVec 80))
//@ smt (assert (forall ((t O$time.Time)) (! (and (bvsgt (ns t) #xffc00000000000000000) (bvslt (ns t) #x00400000000000000000)) :pattern ((ns t)))))
//@ smt (declare-const zero$O$time.Time O$time.Time)
//@ smt (assert (= (ns zero$O$time.Time) #x00000000000000000000))
//@ spec func ns(t time.Time) sbv80 # smt
//@ spec func clamp64(d sbv80) time.Duration = ite(d > 9223372036854775807, 9223372036854775807, ite(d < -9223372036854775808, -9223372036854775808, trunc(d, 64)))
//@ spec func clamp65(d sbv65) time.Duration = ite(d > 9223372036854775807, 9223372036854775807, ite(d < -9223372036854775808, -9223372036854775808, trunc(d, 64)))
// tsub = time.Time.Sub (saturating); satadd / satsub = saturating int64 arithmetic.
// Opaque: function VCs see them as uninterpreted functions plus the lemmas
// below; each lemma is proved once against the definition (obligation lemma/<name>).
//@ spec func tsub(a time.Time, b time.Time) time.Duration = clamp64(ns(a) - ns(b)) # opaque
//@ spec func satadd(a time.Duration, b time.Duration) time.Duration = clamp65(sext(a, 65) + sext(b, 65)) # opaque
//@ spec func satsub(a time.Duration, b time.Duration) time.Duration = clamp65(sext(a, 65) - sext(b, 65)) # opaque
//@ lemma tsub-mono: forall a1 time.Time, b1 time.Time, a2 time.Time, b2 time.Time :: ns(a1) <= ns(a2) && ns(b2) <= ns(b1) ==> tsub(a1, b1) <= tsub(a2, b2)
//@   reveal tsub
//@ lemma tsub-sign: forall a time.Time, b time.Time :: (ns(a) <= ns(b) <==> tsub(a, b) <= 0) && (ns(a) < ns(b) <==> tsub(a, b) < 0)
//@   reveal tsub
//@ lemma satadd-mono: forall x1 time.Duration, y1 time.Duration, x2 time.Duration, y2 time.Duration :: x1 <= x2 && y1 <= y2 ==> satadd(x1, y1) <= satadd(x2, y2)
//@   reveal satadd
//@ lemma satadd-nonneg: forall x time.Duration, y time.Duration :: x >= 0 && y >= 0 ==> satadd(x, y) >= x && satadd(x, y) >= y && satadd(x, y) == ite(x > 9223372036854775807 - y, 9223372036854775807, x + y)
//@   reveal satadd
//@ lemma satadd-zero: forall x time.Duration :: satadd(x, 0) == x && satadd(0, x) == x
//@   reveal satadd
//@ lemma satsub-nonneg: forall x time.Duration, y time.Duration :: x >= 0 && y >= 0 ==> satsub(x, y) == x - y
//@   reveal satsub
//@ lemma satsub-mono: forall x1 time.Duration, z1 time.Duration, x2 time.Duration, z2 time.Duration :: x1 <= x2 && z2 <= z1 ==> satsub(x1, z1) <= satsub(x2, z2)
//@   reveal satsub
// bridge from Go's wrapping arithmetic to saturating subtraction (used for the stale-while-revalidate window)
//@ lemma wrap-window: forall av time.Duration, since time.Duration, ul time.Duration, w time.Duration :: av >= 0 && ul >= 0 && since >= 0 && (av + since) - ul >= 0 && (av + since) - ul < w ==> satsub(av, ul) < w
//@   reveal satsub
//@ spec const maxI64 = 9223372036854775807
//@ spec const minI64 = -9223372036854775808
//@ spec const sec = 1000000000

//@ extern (time.Time).Sub(t, u)
//@   pure
//@   ensures result == tsub(t, u)
//@ extern (time.Time).Before(t, u)
//@   pure
//@   ensures result == (ns(t) < ns(u))
//@ extern (time.Time).After(t, u)
//@   pure
//@   ensures result == (ns(t) > ns(u))
//@ extern (time.Time).Equal(t, u)
//@   pure
//@   ensures result == (ns(t) == ns(u))
//@ extern (time.Time).IsZero(t)
//@   pure
//@   ensures result == (ns(t) == 0)
//@ extern (time.Time).Compare(t, u)
//@   pure
//@   ensures (ns(t) < ns(u) ==> result == -1) && (ns(t) > ns(u) ==> result == 1) && (ns(t) == ns(u) ==> result == 0)
// The location a time.Time prints in: utcLoc(t) says it is UTC. UTC() keeps the instant and
// sets the location; Format with http.TimeFormat (which prints the literal "GMT", whatever the
// location) yields an HTTP-date of the same instant, cut to whole seconds, only for a UTC value
// with a four-digit year (0001..9999 = [0, 315537897600) seconds since year 1).
//@ spec func utcLoc(t time.Time) bool
//@ spec func httpYear(t time.Time) bool = ns(t) >= 0 && ns(t) < 315537897600000000000
//@ extern (time.Time).UTC(t)
//@   pure
//@   ensures ns(result) == ns(t) && utcLoc(result)
//@ extern (time.Time).Format(t, layout)
//@   pure
//@   ensures layout == "Mon, 02 Jan 2006 15:04:05 GMT" && utcLoc(t) && httpYear(t) ==> validHTTPTime(result) && ns(httpTime(result)) <= ns(t) && ns(t) - ns(httpTime(result)) < 1000000000

// The wall clock: ghost `now` is the latest reading; readings never go back.
//@ ghost var now time.Time
//@ extern time.Now
//@   assigns now
//@   ensures ns(now) >= ns(old(now)) && result == now
//@ extern time.Since(t)
//@   assigns now
//@   ensures ns(now) >= ns(old(now)) && result == tsub(now, t)

// time.Duration.Round(m) for m = 1s: a multiple of m within m/2 of d, saturating.
//@ extern (time.Duration).Round(d, m)
//@   pure
//@   ensures m == sec && d >= 0 && d <= maxI64 - sec ==> result % sec == 0 && result >= 0 && result - d <= sec/2 && d - result <= sec/2
//@   ensures m == sec && d >= 0 ==> result >= 0 && result >= d - sec/2
//@   ensures m == sec && d < 0 ==> result <= 0
// (time.Duration).Seconds has no contract: float64 rounding makes int(d.Seconds()) differ from
// d / 1e9 for large d with a fraction close to one second; the repository no longer calls it.

// ---------------------------------------------------------------------------
// strconv — decimal strings. dec64(s) is the value of an all-digit string
// saturated at maxI64; decOverflow(s) says the true value exceeds maxI64.
// All bit-vector: no integer/bit-vector bridge.
//@ spec func isDigits(s string) bool
//@ spec func dec64(s string) int64
//@ spec func decOverflow(s string) bool
//@ spec func isPlusDigits(s string) bool = len(s) > 1 && s[0] == '+' && isDigits(s[1:])
//@ spec func isMinusDigits(s string) bool = len(s) > 1 && s[0] == '-' && isDigits(s[1:])
//@ axiom isDigits-shape: forall s string :: isDigits(s) ==> len(s) > 0 && s[0] >= '0' && s[0] <= '9'
//@ axiom isDigits-def: forall s string :: isDigits(s) <==> (len(s) > 0 && (forall i int :: 0 <= i && i < len(s) ==> s[i] >= '0' && s[i] <= '9'))
//@ axiom dec64-range: forall s string :: dec64(s) >= 0 && (decOverflow(s) ==> dec64(s) == maxI64)
//@ extern strconv.ParseInt(s, base, bitSize)
//@   pure
//@   requires base == 10 && bitSize == 64
//@   ensures isDigits(s) && !decOverflow(s) ==> result1 == nil && result0 == dec64(s)
//@   ensures isDigits(s) && decOverflow(s) ==> result1 != nil && result0 == maxI64
//@   ensures isPlusDigits(s) && !decOverflow(s[1:]) ==> result1 == nil && result0 == dec64(s[1:])
//@   ensures isPlusDigits(s) && decOverflow(s[1:]) ==> result1 != nil && result0 == maxI64
//@   ensures isMinusDigits(s) && !decOverflow(s[1:]) ==> result1 == nil && result0 == 0 - dec64(s[1:])
//@   ensures isMinusDigits(s) && decOverflow(s[1:]) ==> result0 == minI64
//@   ensures !isDigits(s) && !isPlusDigits(s) && !isMinusDigits(s) ==> result1 != nil && result0 == 0
//@ extern strconv.Atoi(s)
//@   pure
//@   ensures isDigits(s) && !decOverflow(s) ==> result1 == nil && result0 == dec64(s)
//@   ensures isDigits(s) && decOverflow(s) ==> result1 != nil && result0 == maxI64
//@   ensures isPlusDigits(s) && !decOverflow(s[1:]) ==> result1 == nil && result0 == dec64(s[1:])
//@   ensures isPlusDigits(s) && decOverflow(s[1:]) ==> result1 != nil && result0 == maxI64
//@   ensures isMinusDigits(s) && !decOverflow(s[1:]) ==> result1 == nil && result0 == 0 - dec64(s[1:])
//@   ensures isMinusDigits(s) && decOverflow(s[1:]) ==> result0 == minI64
//@   ensures !isDigits(s) && !isPlusDigits(s) && !isMinusDigits(s) ==> result1 != nil && result0 == 0
//@ spec func itoa(n int) string
//@ extern strconv.Itoa(i)
//@   pure
//@   ensures result == itoa(i)

// ---------------------------------------------------------------------------
// net/http.Header (map[string][]string, keys canonical)
//@ spec func hget(h http.Header, k string) string = ite(has(h, k) && len(get(h, k)) > 0, get(h, k)[0], "")
//@ extern (net/http.Header).Get(h, key)
//@   pure
//@   ensures result == hget(h, canon(key))
//@ extern (net/http.Header).Set(h, key, value)
//@   requires h != nil
//@   assigns map(h)
//@   ensures mapUpdated(h, canon(key), get(h, canon(key)))
//@   ensures has(h, canon(key)) && len(get(h, canon(key))) == 1 && get(h, canon(key))[0] == value && fresh(get(h, canon(key)))
//@ extern (net/http.Header).Del(h, key)
//@   assigns map(h)
//@   ensures mapRemoved(h, canon(key))
//@ extern (net/http.Header).Values(h, key)
//@   pure
//@   ensures has(h, canon(key)) ==> result == get(h, canon(key))
//@   ensures !has(h, canon(key)) ==> len(result) == 0 && result == nil
//@ extern (net/http.Header).Clone(h)
//@   pure
//@   ensures h == nil ==> result == nil
//@   ensures h != nil ==> result != nil && fresh(result)
//@   ensures forall k string :: has(result, k) == has(h, k) && len(get(result, k)) == len(get(h, k)) && hget(result, k) == hget(h, k)
//@   ensures forall k string :: joinAll(result, k) == joinAll(h, k)
// all values of field k joined with ',' (RFC 9110 §5.3: several field lines form one list)
//@ spec func joinS(a Arr[int, string], off int, n int) string
//@ axiom joinS-none: forall a Arr[int, string], off int :: joinS(a, off, 0) == ""
//@ axiom joinS-one: forall a Arr[int, string], off int :: joinS(a, off, 1) == a[off]
//@ spec func joinAll(h http.Header, k string) string = ite(has(h, k), joinS(elemsArr(get(h, k)), sliceOff(get(h, k)), len(get(h, k))), "")
//@ extern strings.Join(elems, sep)
//@   pure
//@   ensures sep == "," ==> result == joinS(elemsArr(elems), sliceOff(elems), len(elems))
//@ extern net/http.CanonicalHeaderKey(s)
//@   pure
//@   ensures result == canon(s)
//@ extern net/textproto.TrimString(s)
//@   pure
//@   ensures result == trimOWS(s)
//@ spec func trimOWS(s string) string
//@ axiom trimOWS-len: forall s string :: len(trimOWS(s)) <= len(s)

// http.ParseTime: on success the result has whole-second granularity.
//@ spec func validHTTPTime(s string) bool
//@ spec func httpTime(s string) time.Time
//@ axiom httpTime-nonempty: forall s string :: validHTTPTime(s) ==> len(s) > 0
//@ extern net/http.ParseTime(text)
//@   pure
//@   ensures (result1 == nil) == validHTTPTime(text)
//@   ensures result1 == nil ==> result0 == httpTime(text)

// ---------------------------------------------------------------------------
// pure helpers with unconstrained results
//@ extern fmt.Sprintf
//@   pure
//@ extern fmt.Errorf
//@   pure
//@   ensures result != nil
//@ extern errors.Join(errs)
//@   pure
//@   ensures (exists i int :: 0 <= i && i < len(errs) && errs[i] != nil) ==> result != nil
//@   ensures len(errs) > 0 && errs[0] == driver.ErrNotExist ==> notExist(result)
//@ extern errors.Is(err, target)
//@   pure
//@   ensures result == errIs(err, target)
//@ extern errors.New
//@   pure
//@   ensures result != nil
//@ extern os.Getenv
//@   pure
// lower(s) = strings.ToLower(s). Only for ASCII strings does it keep the length and agree with
// EqualFold: ToLower turns every invalid UTF-8 byte into U+FFFD (3 bytes) and maps e.g. the
// Kelvin sign to 'k', and EqualFold uses Unicode simple folding ("\u017f" folds to "s").
//@ spec func isASCII(s string) bool = forall i int :: 0 <= i && i < len(s) ==> s[i] < 128 # opaque
//@ extern strings.EqualFold(s, t)
//@   pure
//@   ensures isASCII(s) && isASCII(t) ==> result == (lower(s) == lower(t))
//@ spec func lower(s string) string
//@ axiom lower-idem: forall s string :: lower(lower(s)) == lower(s)
//@ axiom lower-len: forall s string :: isASCII(s) ==> len(lower(s)) == len(s)
//@ extern strings.ToLower(s)
//@   pure
//@   ensures result == lower(s)
//@ extern strings.TrimSpace(s)
//@   pure
//@   ensures result == trimSpace(s)
//@ spec func trimSpace(s string) string
//@ extern strings.HasPrefix(s, prefix)
//@   pure
//@   ensures result == (len(prefix) <= len(s) && s[:len(prefix)] == prefix)
//@ extern strings.HasSuffix(s, suffix)
//@   pure
//@   ensures result == (len(suffix) <= len(s) && s[len(s)-len(suffix):] == suffix)
//@ extern strings.LastIndexByte(s, c)
//@   pure
//@   ensures result >= -1 && result < len(s)
//@   ensures result >= 0 ==> s[result] == c
//@   ensures forall i int :: result < i && i < len(s) ==> s[i] != c

// ---------------------------------------------------------------------------
// net/http.Request helpers
//@ extern (*net/http.Request).Context(r)
//@   pure
//@ extern (*net/http.Request).Clone(r, ctx)
//@   pure
//@   fresh
//@   ensures result != nil && result.Method == r.Method && (r.URL != nil ==> result.URL != nil)
//@   ensures r.Header != nil ==> result.Header != nil && fresh(result.Header)
//@   ensures r.Header == nil ==> result.Header == nil
//@   ensures forall k string :: has(result.Header, k) == has(r.Header, k) && hget(result.Header, k) == hget(r.Header, k)
//@   ensures hget(result.Header, "Cache-Control") == hget(r.Header, "Cache-Control") && hget(result.Header, "Range") == hget(r.Header, "Range")
//@   ensures joinAll(result.Header, "Cache-Control") == joinAll(r.Header, "Cache-Control")
//@ extern (*net/http.Request).WithContext(r, ctx)
//@   pure
//@   fresh
//@   ensures result != nil && result.Method == r.Method && result.URL == r.URL && result.Header == r.Header

// ---------------------------------------------------------------------------
// decoding helpers: total (no panic), results unconstrained
// (used for the variant index only: writes the decoded value through the pointer in v)
// lastDecodedRefs: the variant index the last json.Unmarshal produced
//@ ghost var lastDecodedRefs ResponseRefs
//@ extern encoding/json.Unmarshal(data, v)
//@   requires typeis(v, *ResponseRefs)
//@   assigns cell(as(v, *ResponseRefs)), lastDecodedRefs
//@   ensures lastDecodedRefs == *as(v, *ResponseRefs)                 # ghost-update
// encoding/json only round-trips valid UTF-8 strings: a stored reference handed to it must have
// been escaped (C04, C09, C19)
//@ extern encoding/json.Marshal(v)
//@   pure
//@   requires typeis(v, responseRefJSON) ==> validUTF8(as(v, responseRefJSON).ResponseID) && validUTF8(as(v, responseRefJSON).Vary) && (forall k string :: has(as(v, responseRefJSON).VaryResolved, k) ==> validUTF8(k) && validUTF8(get(as(v, responseRefJSON).VaryResolved, k)))     # name: index-strings-are-valid-utf8-when-written   props: C04 C09 C19
//@ extern bytes.NewReader(b)
//@   pure
//@   ensures result != nil
//@ extern bufio.NewReader(rd)
//@   pure
//@   fresh
//@   ensures result != nil
//@ extern (*bufio.Reader).ReadBytes(b, delim)
//@   assigns cell(b)
//@ extern bytes.TrimSpace(s)
//@   pure
//@ extern bytes.Split(s, sep)
//@   pure
//@   ensures forall i int :: 0 <= i && i < len(result) ==> allocated(result[i])
//@ extern time.Parse(layout, value)
//@   pure
//@ extern net/http.ReadResponse(r, req)
//@   assigns cell(r)
//@   ensures (result0 != nil) != (result1 != nil)
//@   ensures result0 != nil ==> result0.Header != nil && fresh(result0) && fresh(result0.Header)
// DumpResponse(resp, true) drains resp.Body and replaces it with an in-memory copy.
// Ghost bodyReadFailed: the last attempt to read a response body completely failed.
//@ ghost var bodyReadFailed bool
//@ extern net/http/httputil.DumpResponse(resp, body)
//@   requires resp != nil
//@   assigns resp.Body, bodyReadFailed
//@   ensures bodyReadFailed == (result1 != nil)
//@   ensures result1 != nil ==> len(result0) == 0
//@ extern (*bytes.Buffer).Write(b, p)
//@   assigns cell(b)
//@ extern (*bytes.Buffer).Bytes(b)
//@   pure
//@ extern fmt.Fprintf
//@   assigns *
// slices.SortFunc permutes its argument and calls cmp only on elements of it.
//@ extern slices.SortFunc(x, cmp)
//@   assigns elems(x)
//@   ensures forall i int :: 0 <= i && i < len(x) ==> exists j int :: 0 <= j && j < len(x) && x[i] == old(x[j])

// ---------------------------------------------------------------------------
// net/url (parse/resolve are not verified: shapes only)
//@ extern net/url.Parse(rawURL)
//@   pure
//@   ensures (result0 != nil) != (result1 != nil)
//@   ensures result0 != nil ==> fresh(result0)
// lastResolved: the URL object returned by the last ResolveReference call (ghost)
//@ ghost var lastResolved *url.URL
//@ extern (*net/url.URL).ResolveReference(u, ref)
//@   requires u != nil && ref != nil
//@   assigns lastResolved
//@   fresh
//@   ensures result != nil && lastResolved == result
//@ spec func portOfHost(host string) string
//@ spec func nameOfHost(host string) string
//@ extern (*net/url.URL).Port(u)
//@   pure
//@   ensures result == portOfHost(u.Host)
//@ extern (*net/url.URL).Hostname(u)
//@   pure
//@   ensures result == nameOfHost(u.Host)
//@ spec func escPathV(path string, rawPath string) string
//@ extern (*net/url.URL).EscapedPath(u)
//@   requires u != nil
//@   pure
//@   ensures result == escPathV(u.Path, u.RawPath)
//@ spec func containsS(s string, sub string) bool
//@ extern strings.Contains(s, substr)
//@   pure
//@   ensures result == containsS(s, substr)

//@ iface context.Context.Done(c)
//@   pure
//@ iface context.Context.Err(c)
//@   pure

// ---------------------------------------------------------------------------
// strings.Builder: ghost content sbc[b]; app1(s, c) = s followed by the byte c
//@ ghost heap sbc *strings.Builder string
//@ spec func app1(s string, c byte) string
//@ axiom app1-len: forall s string, c byte :: len(s) < 4611686018427387903 ==> len(app1(s, c)) == len(s) + 1
// appending byte i of s to the piece s[a:i] gives the piece s[a:i+1]
//@ axiom app1-substring: forall s string, a int, i int {app1(s[a:i], s[i])} :: 0 <= a && a <= i && i < len(s) ==> app1(s[a:i], s[i]) == s[a:i+1]
//@ axiom strOf-empty: forall a Arr[int,byte], off int {strOf(a, off, 0)} :: strOf(a, off, 0) == ""
//@ axiom strOf-snoc: forall a Arr[int,byte], off int, n int {app1(strOf(a, off, n), a[off + n])} :: 0 <= n && n < 4611686018427387904 ==> app1(strOf(a, off, n), a[off + n]) == strOf(a, off, n + 1)
//@ extern (*strings.Builder).WriteByte(b, c)
//@   requires b != nil
//@   assigns sbc[b]
//@   ensures sbc[b] == app1(old(sbc[b]), c) && result == nil
//@ extern (*strings.Builder).WriteRune(b, r)
//@   requires b != nil
//@   assigns sbc[b]
//@   ensures r >= 0 && r < 128 ==> sbc[b] == app1(old(sbc[b]), byte(r))
//@ extern (*strings.Builder).WriteString(b, s)
//@   requires b != nil
//@   assigns sbc[b]
//@   ensures sbc[b] == old(sbc[b]) + s
//@ extern (*strings.Builder).String(b)
//@   requires b != nil
//@   pure
//@   ensures result == sbc[b]
//@ extern (*strings.Builder).Len(b)
//@   requires b != nil
//@   pure
//@   ensures result == len(sbc[b])
//@ extern (*strings.Builder).Reset(b)
//@   requires b != nil
//@   assigns sbc[b]
//@   ensures sbc[b] == ""

// ---------------------------------------------------------------------------
// sync.RWMutex: ghost lockHeld[m] (0 = free, 1 = read-locked by this goroutine, 2 = write-locked)
//@ ghost heap lockHeld *sync.RWMutex int
//@ extern (*sync.RWMutex).Lock(m)
//@   requires m != nil && lockHeld[m] == 0
//@   assigns lockHeld[m]
//@   ensures lockHeld[m] == 2
//@ extern (*sync.RWMutex).Unlock(m)
//@   requires m != nil && lockHeld[m] == 2
//@   assigns lockHeld[m]
//@   ensures lockHeld[m] == 0
//@ extern (*sync.RWMutex).RLock(m)
//@   requires m != nil && lockHeld[m] == 0
//@   assigns lockHeld[m]
//@   ensures lockHeld[m] == 1
//@ extern (*sync.RWMutex).RUnlock(m)
//@   requires m != nil && lockHeld[m] == 1
//@   assigns lockHeld[m]
//@   ensures lockHeld[m] == 0
// errors.Is(err, driver.ErrNotExist)
//@ spec func notExist(err error) bool

// ---------------------------------------------------------------------------
// ghost file system under one *os.Root (C14, C15, C17). Regular files only: fsHas[name],
// fsData[name] (content as a byte string). Assumed: operations on an absent file fail with
// an error satisfying errors.Is(err, os.ErrNotExist); a failed Create leaves the file as
// it was; a successful Create truncates; Write appends what it was given when it reports
// no error and an arbitrary prefix of it otherwise; ReadAll of a freshly opened file
// returns its whole content; MkdirAll, Chtimes, Sync and Close do not change file contents.
//@ ghost heap fsHas string bool
//@ ghost heap fsData string string
//@ spec func fileNameOf(f *os.File) string
//@ spec func errIs(err error, target error) bool
//@ spec func strOf(a Arr[int,byte], off int, n int) string
//@ spec func bytesOf(b []byte) string = strOf(elemsArr(b), sliceOff(b), len(b))
//@ axiom empty-concat: forall a Arr[int,byte], off int, n int {"" + strOf(a, off, n)} :: "" + strOf(a, off, n) == strOf(a, off, n)

//@ extern (*os.Root).Open(r, name)
//@   pure
//@   ensures result1 == nil ==> result0 != nil && fileNameOf(result0) == name && fsHas[name]
//@   ensures result1 != nil ==> result0 == nil
//@   ensures !fsHas[name] ==> result1 != nil && errIs(result1, os.ErrNotExist)
//@ extern (*os.Root).Create(r, name)
//@   assigns fsHas[name], fsData[name]
//@   ensures result1 == nil ==> result0 != nil && fileNameOf(result0) == name && fsHas[name] && fsData[name] == ""
//@   ensures result1 != nil ==> result0 == nil && fsHas[name] == old(fsHas[name]) && fsData[name] == old(fsData[name])
//@ extern (*os.Root).Remove(r, name)
//@   assigns fsHas[name]
//@   ensures result == nil ==> old(fsHas[name]) && !fsHas[name]
//@   ensures result != nil ==> fsHas[name] == old(fsHas[name])
//@   ensures !old(fsHas[name]) ==> result != nil && errIs(result, os.ErrNotExist)
// OpenFile is modelled for O_WRONLY|O_CREATE|O_EXCL (193 on linux) only: it creates a new
// empty file or fails and changes nothing; with other flags nothing is known (the file may
// be created or truncated).
//@ extern (*os.Root).OpenFile(r, name, flag, perm)
//@   assigns fsHas[name], fsData[name]
//@   ensures flag == 193 && result1 == nil ==> result0 != nil && fileNameOf(result0) == name && !old(fsHas[name]) && fsHas[name] && fsData[name] == ""
//@   ensures flag == 193 && result1 != nil ==> result0 == nil && fsHas[name] == old(fsHas[name]) && fsData[name] == old(fsData[name])
// Rename is atomic: it either moves the whole file over the new name or changes nothing.
//@ extern (*os.Root).Rename(r, oldname, newname)
//@   assigns fsHas[oldname], fsHas[newname], fsData[newname]
//@   ensures result == nil && oldname != newname ==> old(fsHas[oldname]) && !fsHas[oldname] && fsHas[newname] && fsData[newname] == old(fsData[oldname])
//@   ensures result != nil ==> fsHas[oldname] == old(fsHas[oldname]) && fsHas[newname] == old(fsHas[newname]) && fsData[newname] == old(fsData[newname])
//@ extern (*os.Root).MkdirAll
//@   pure
//@ extern (*os.Root).Chtimes
//@   pure
//@ extern (*os.Root).Name
//@   pure
//@ extern (*os.File).Write(f, b)
//@   requires f != nil
//@   assigns fsData[fileNameOf(f)]
//@   ensures result1 == nil ==> fsData[fileNameOf(f)] == old(fsData[fileNameOf(f)]) + bytesOf(b)
//@ extern (*os.File).Sync
//@   pure
//@ extern (*os.File).Close
//@   pure
//@ extern io.ReadAll(r)
//@   pure
//@   ensures result1 == nil && typeis(r, *os.File) ==> bytesOf(result0) == fsData[fileNameOf(as(r, *os.File))]

// ---------------------------------------------------------------------------
// encoding/base64 (URL alphabet, no padding) and path/filepath. b64Text(s): s is made of
// base64url characters only - in particular it contains neither '/' (47) nor '~' (126).
// A path is a sequence of components: pathLen/pathPart. Assumed: Join of non-empty
// components that contain no separator yields exactly those components, and a separator-free
// string is a one-component path.
//@ spec func b64Text(s string) bool
//@ spec func pathLen(p string) int
//@ spec func pathPart(p string, j int) string
//@ spec func pathBase(p string) string
//@ spec func sepFree(s string) bool = forall i int :: 0 <= i && i < len(s) ==> s[i] != 47 # opaque
//@ lemma sepFree-substring: forall s string, i int, j int :: sepFree(s) && 0 <= i && i <= j && j <= len(s) ==> sepFree(s[i:j])
//@   reveal sepFree
//@ lemma sepFree-concat: forall a string, b string :: sepFree(a) && sepFree(b) && len(a) < 2305843009213693952 && len(b) < 2305843009213693952 ==> sepFree(a + b)
//@   reveal sepFree
//@ lemma sepFree-markers: sepFree("~") && sepFree(".tmp-")
//@   reveal sepFree
//@ axiom b64-alphabet: forall s string, i int :: b64Text(s) && 0 <= i && i < len(s) ==> s[i] != 126 && s[i] != 47 && s[i] != 46
//@ lemma sepFree-b64: forall s string :: b64Text(s) ==> sepFree(s)
//@   reveal sepFree
//@ axiom b64-one-component: forall s string :: b64Text(s) ==> pathLen(s) == 1 && pathPart(s, 0) == s
//@ axiom path-base-is-last-part: forall p string :: pathLen(p) >= 1 ==> pathBase(p) == pathPart(p, pathLen(p)-1)
// b64stdOf(b): RawStdEncoding of the bytes of b (a macro, so that functions that do not talk about it do not pull in the byte-string axioms)
//@ spec func b64stdOf(b []byte) string = b64std(bytesOf(b))
//@ extern (*encoding/base64.Encoding).EncodeToString(enc, src)
//@   pure
//@   ensures enc == base64.RawURLEncoding ==> b64Text(result)
//@   ensures enc == base64.RawStdEncoding ==> result == b64stdOf(src)
//@ extern path/filepath.Join(elem)
//@   pure
//@   requires forall j int :: 0 <= j && j < len(elem) ==> len(elem[j]) > 0
//@   ensures (forall j int :: 0 <= j && j < len(elem) ==> sepFree(elem[j]) && elem[j] != "." && elem[j] != "..") ==> pathLen(result) == len(elem) && (forall j int :: 0 <= j && j < len(elem) ==> pathPart(result, j) == elem[j])
//@   ensures len(elem) > 0 && sepFree(elem[len(elem)-1]) && elem[len(elem)-1] != "." && elem[len(elem)-1] != ".." ==> pathBase(result) == elem[len(elem)-1]
//@ extern path/filepath.Dir(path)
//@   pure
//@   ensures len(result) > 0
// crypto/rand.Text: 26 characters of the base32 alphabet.
//@ extern crypto/rand.Text
//@   pure
//@   ensures sepFree(result) && len(result) == 26

// ---------------------------------------------------------------------------
// crypto/cipher.AEAD, seen as an authenticated-encryption oracle (C17). sealed(g, nonce, pt)
// is the ciphertext-with-tag the AEAD g produces; Open succeeds only on such a ciphertext
// for the same nonce and returns that plaintext (unforgeability and correctness of AES-GCM
// are ASSUMED, not proved). lastRead: the bytes the last successful io.ReadFull delivered.
//@ spec func sealed(g cipher.AEAD, nonce string, pt string) string
//@ spec func nonceSize(g cipher.AEAD) int
//@ ghost var lastRead string
//@ axiom nonce-size-positive: forall g cipher.AEAD :: nonceSize(g) > 0 && nonceSize(g) < 4096
//@ axiom strOf-len: forall a Arr[int,byte], off int, n int {strOf(a, off, n)} :: 0 <= n && n < 4611686018427387904 ==> len(strOf(a, off, n)) == n
//@ axiom strOf-split: forall a Arr[int,byte], off int, n int, k int {strOf(a, off, n), strOf(a, off, k)} :: 0 <= k && k <= n && n < 4611686018427387904 && 0 <= off && off < 4611686018427387904 ==> strOf(a, off, n) == strOf(a, off, k) + strOf(a, off + k, n - k)
//@ iface crypto/cipher.AEAD.NonceSize(g)
//@   pure
//@   ensures result == nonceSize(g)
// Seal appends to dst: it may write into dst's backing array beyond len(dst) (when the capacity
// allows) or return a new array; either way the first len(dst) bytes are dst's.
//@ iface crypto/cipher.AEAD.Seal(g, dst, nonce, plaintext, additionalData)
//@   requires len(additionalData) == 0
//@   assigns elems(dst)
//@   ensures bytesOf(result) == old(bytesOf(dst)) + sealed(g, old(bytesOf(nonce)), old(bytesOf(plaintext)))
//@   ensures sameArray(result, dst) || fresh(result)
//@ iface crypto/cipher.AEAD.Open(g, dst, nonce, ciphertext, additionalData)
//@   requires len(additionalData) == 0
//@   assigns elems(dst)
//@   ensures result1 == nil && len(dst) == 0 ==> old(bytesOf(ciphertext)) == sealed(g, old(bytesOf(nonce)), bytesOf(result0))
//@ extern io.ReadFull(r, buf)
//@   assigns elems(buf), lastRead
//@   ensures result1 == nil ==> bytesOf(buf) == lastRead && result0 == len(buf)
// b64Decoded(enc, s): the bytes DecodeString delivers for s when it succeeds (a name: decoding is a
// function of the encoding and the text). aesKeyOf / gcmKeyOf: the key a block cipher / an AEAD
// built over it works with. aes.NewCipher accepts 16, 24 and 32 byte keys only (conformance-tested).
//@ spec func b64Decoded(enc *base64.Encoding, s string) string
//@ spec func aesKeyOf(b cipher.Block) string
//@ spec func gcmKeyOf(g cipher.AEAD) string
//@ extern (*encoding/base64.Encoding).DecodeString(enc, s)
//@   pure
//@   ensures enc == base64.RawStdEncoding ==> (forall x string :: s == b64std(x) ==> result1 == nil && bytesOf(result0) == x)
//@   ensures result1 == nil ==> bytesOf(result0) == b64Decoded(enc, s)
//@ extern crypto/aes.NewCipher(key)
//@   pure
//@   ensures result1 == nil ==> result0 != nil
//@   ensures result1 == nil ==> (len(key) == 16 || len(key) == 24 || len(key) == 32) && aesKeyOf(result0) == bytesOf(key)
//@ extern crypto/cipher.NewGCM(cipher)
//@   pure
//@   ensures result1 == nil ==> result0 != nil
//@   ensures result1 == nil ==> gcmKeyOf(result0) == aesKeyOf(cipher)
//@ extern context.Background
//@   pure
// ctxDeadlineWithin(c, d): context c is cancelled at most d after it was made
//@ spec func ctxDeadlineWithin(c context.Context, d time.Duration) bool
//@ extern context.WithTimeout(parent, timeout)
//@   pure
//@   requires timeout > 0                                  # name: positive-timeout
//@   ensures result0 != nil && result1 != nil && ctxDeadlineWithin(result0, timeout)
//@ extern cmp.Or(vals)
//@   pure
//@   ensures len(vals) == 2 ==> result == ite(vals[0] != zeroOf(vals[0]), vals[0], vals[1])
//@ extern maps.Clone(m)
//@   pure
//@   ensures m == nil ==> result == nil
//@   ensures m != nil ==> result != nil && fresh(result) && hasArr(result) == hasArr(m) && valArr(result) == valArr(m)

// goroutinesSpawned: number of `go` statements executed by this thread of control (the
// verifier increments it at every go statement; C20: exactly one background revalidation)
//@ ghost var goroutinesSpawned int

// net/url query access (C17 wiring): Query() parses RawQuery afresh on each call; Get returns
// the first value of a parameter. urlQuery(u, k) names that value as a function of the URL.
//@ spec func urlQuery(u *url.URL, k string) string
//@ spec func qvGet(v url.Values, k string) string
//@ extern (*net/url.URL).Query(u)
//@   pure
//@   ensures forall k string :: qvGet(result, k) == urlQuery(u, k)
//@ extern (net/url.Values).Get(v, key)
//@   pure
//@   ensures result == qvGet(v, key)
//@ extern slices.Clip(s)
//@   pure
//@   ensures len(result) == len(s) && (forall i int :: 0 <= i && i < len(s) ==> result[i] == s[i])
//@ extern time.ParseDuration
//@   pure

// unicode/utf8 and encoding/base64 (RawStdEncoding) as used by the index escaping
//@ extern unicode/utf8.ValidString(s)
//@   pure
//@   ensures result == validUTF8(s)
//@ extern strings.CutPrefix(s, prefix)
//@   pure
//@   ensures result1 == hasPfx(s, prefix)
//@   ensures result1 ==> result0 == s[len(prefix):len(s)]
//@   ensures !result1 ==> result0 == s

// strings.Cut: split around the first occurrence of sep
//@ spec func cutFound(s string, sep string) bool
//@ spec func cutBefore(s string, sep string) string
//@ spec func cutAfter(s string, sep string) string
//@ extern strings.Cut(s, sep)
//@   pure
//@   ensures result2 == cutFound(s, sep) && result0 == cutBefore(s, sep) && result1 == cutAfter(s, sep)
//@   ensures result2 ==> s == result0 + sep + result1
//@   ensures !result2 ==> result0 == s && result1 == ""

// net/http pieces used by the maintenance API
//@ spec func pathValue(r *http.Request, name string) string
//@ extern (*net/http.Request).PathValue(r, name)
//@   pure
//@   ensures result == pathValue(r, name)
//@ extern net/http.Error
//@   pure
//@ iface net/http.ResponseWriter.Header(w)
//@   pure
//@   ensures result != nil
//@ iface net/http.ResponseWriter.WriteHeader(w, code)
//@   pure
//@ iface net/http.ResponseWriter.Write(w, b)
//@   pure

// slices.ContainsFunc with a side-effect-free predicate given as a closure that is under a `pure`
// contract of its own: the predicate is applied to elements only (so its precondition must hold
// for every element) and the result says whether some element satisfies it.
//@ extern slices.ContainsFunc(s, f)
//@   pure
//@   requires forall i int :: 0 <= i && i < len(s) ==> callpre(f, s[i])
//@   ensures result == (exists i int :: 0 <= i && i < len(s) && call(f, s[i]))
