-- Mathematical statement behind the axiom `csv-cnt-mono` (and the bound `csvCnt(s, i) <= i` used as a
-- loop invariant) of /verif/contracts/repo/internal/contracts_verif.go: a counter that starts at 0
-- and in every step either stays or grows by one (axioms csv-cnt-0, csv-cnt-step) never decreases
-- and never exceeds the number of steps taken. (So for strings shorter than 2^62 the 64-bit
-- additions of the step axiom never wrap.)
theorem csvCnt_step_mono (f : Nat → Nat)
    (hstep : ∀ i, f (i + 1) = f i + 1 ∨ f (i + 1) = f i) :
    ∀ i j, i ≤ j → f i ≤ f j := by
  intro i j hij
  induction j with
  | zero =>
    have : i = 0 := Nat.le_zero.mp hij
    subst this
    exact Nat.le_refl _
  | succ n ih =>
    rcases Nat.lt_or_ge i (n + 1) with hlt | hge
    · have hin : i ≤ n := Nat.lt_succ_iff.mp hlt
      have h1 := ih hin
      rcases hstep n with h | h
      · rw [h]; exact Nat.le_succ_of_le h1
      · rw [h]; exact h1
    · have : i = n + 1 := Nat.le_antisymm hij hge
      subst this
      exact Nat.le_refl _

theorem csvCnt_le_index (f : Nat → Nat) (h0 : f 0 = 0)
    (hstep : ∀ i, f (i + 1) = f i + 1 ∨ f (i + 1) = f i) :
    ∀ i, f i ≤ i := by
  intro i
  induction i with
  | zero => rw [h0]; exact Nat.le_refl _
  | succ n ih =>
    rcases hstep n with h | h
    · rw [h]; exact Nat.succ_le_succ ih
    · rw [h]; exact Nat.le_succ_of_le ih
