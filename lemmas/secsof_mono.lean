-- Mathematical statement behind the axiom `secsOf-mono` of /verif/contracts/repo/internal/contracts_verif.go:
-- integer division by the positive constant 10^9 is monotone on non-negative integers and non-negative.
-- (For non-negative operands Go's truncating division and SMT-LIB bvsdiv agree with Int `/`.)
theorem secsOf_mono (a b : Int) (h0 : 0 ≤ a) (h : a ≤ b) :
    a / 1000000000 ≤ b / 1000000000 ∧ 0 ≤ a / 1000000000 := by
  constructor
  · exact Int.ediv_le_ediv (by decide) h
  · exact Int.ediv_nonneg h0 (by decide)
