// Package conformance: a BOUNDED conformance harness for the assumed contracts of
// /verif/contracts/stdlib/std.go. Each test states the contract it exercises (the
// string given to contract(t, ...)) and compares what the contract says with what the
// real standard library of the toolchain /repo is built with does, on enumerated
// corner cases plus seeded pseudo-random inputs. It proves nothing: it can only show
// that an assumption is FALSE. Contracts of the pure naming kind
// (result == uninterpreted(arguments)) say no more than "deterministic" and are not
// exercised.
package conformance

import (
	"bytes"
	"cmp"
	"context"
	"crypto/aes"
	"crypto/cipher"
	crand "crypto/rand"
	"encoding/base64"
	"encoding/json"
	"errors"
	"fmt"
	"io"
	"maps"
	"math"
	"math/big"
	"math/rand"
	"net/http"
	"net/http/httputil"
	"net/textproto"
	"net/url"
	"os"
	"path/filepath"
	"slices"
	"strconv"
	"strings"
	"testing"
	"time"
	"unicode/utf8"
)

var cases = map[string]int{}

func contract(t *testing.T, name string) { t.Helper(); t.Logf("CONTRACT %s", name) }
func count(name string, n int)           { cases[name] += n }

func TestMain(m *testing.M) {
	rc := m.Run()
	total := 0
	for _, n := range cases {
		total += n
	}
	fmt.Printf("CONFORMANCE groups=%d cases=%d\n", len(cases), total)
	os.Exit(rc)
}

func rng() *rand.Rand { return rand.New(rand.NewSource(20260927)) }

func iters() int {
	if os.Getenv("VERIF_TIER") == "thorough" {
		return 200000
	}
	return 20000
}

// ns(t): nanoseconds since 0001-01-01T00:00:00Z, exact.
func ns(t time.Time) *big.Int {
	s := big.NewInt(t.Unix())
	s.Add(s, big.NewInt(62135596800))
	s.Mul(s, big.NewInt(1000000000))
	return s.Add(s, big.NewInt(int64(t.Nanosecond())))
}

func clamp64(d *big.Int) int64 {
	if d.Cmp(big.NewInt(math.MaxInt64)) > 0 {
		return math.MaxInt64
	}
	if d.Cmp(big.NewInt(math.MinInt64)) < 0 {
		return math.MinInt64
	}
	return d.Int64()
}

// a time within the assumed range (|ns| < 2^70, about 37000 years around year 1)
func randTime(r *rand.Rand) time.Time {
	var sec int64
	switch r.Intn(6) {
	case 0:
		sec = -62135596800 + r.Int63n(315537897600) // years 1..9999
	case 1:
		sec = r.Int63n(4102444800) // 1970..2100
	case 2:
		sec = -62135596800 + r.Int63n(2_000_000_000_000) - 1_000_000_000_000
	case 3:
		sec = -62135596800 + int64(r.Intn(3)) - 1
	case 4:
		sec = time.Now().Unix() + int64(r.Intn(7200)) - 3600
	default:
		sec = -62135596800 + 315537897600 - 1 - int64(r.Intn(3))
	}
	nsec := int64(0)
	switch r.Intn(4) {
	case 0:
		nsec = r.Int63n(1000000000)
	case 1:
		nsec = 999999999
	}
	t := time.Unix(sec, nsec)
	switch r.Intn(4) {
	case 0:
		return t.UTC()
	case 1:
		return t.In(time.FixedZone("x", (r.Intn(57)-28)*1800))
	}
	return t
}

func TestTimeArithmetic(t *testing.T) {
	contract(t, "(time.Time).Sub/Before/After/Equal/Compare/IsZero/UTC")
	r := rng()
	n := iters()
	for i := 0; i < n; i++ {
		a, b := randTime(r), randTime(r)
		if i%7 == 0 {
			b = a.Add(time.Duration(r.Intn(3) - 1))
		}
		na, nb := ns(a), ns(b)
		if got, want := int64(a.Sub(b)), clamp64(new(big.Int).Sub(na, nb)); got != want {
			t.Fatalf("Sub(%v,%v) = %d, contract %d", a, b, got, want)
		}
		c := na.Cmp(nb)
		if a.Before(b) != (c < 0) || a.After(b) != (c > 0) || a.Equal(b) != (c == 0) || a.Compare(b) != c {
			t.Fatalf("ordering of %v and %v disagrees with ns", a, b)
		}
		if a.IsZero() != (na.Sign() == 0) {
			t.Fatalf("IsZero(%v)", a)
		}
		if ns(a.UTC()).Cmp(na) != 0 {
			t.Fatalf("UTC changes the instant of %v", a)
		}
	}
	var z time.Time
	if ns(z).Sign() != 0 || !z.IsZero() {
		t.Fatalf("zero time is not ns 0")
	}
	count("time", n)
}

func TestFormatHTTPDate(t *testing.T) {
	contract(t, "(time.Time).Format(http.TimeFormat) on a UTC value of years 0001..9999; net/http.ParseTime")
	if http.TimeFormat != "Mon, 02 Jan 2006 15:04:05 GMT" {
		t.Fatalf("http.TimeFormat = %q", http.TimeFormat)
	}
	r := rng()
	n := iters()
	lim := new(big.Int).Mul(big.NewInt(315537897600), big.NewInt(1000000000))
	zoneMatters := false
	for i := 0; i < n; i++ {
		x := randTime(r)
		nx := ns(x)
		if nx.Sign() < 0 || nx.Cmp(lim) >= 0 {
			continue
		}
		u := x.UTC()
		s := u.Format(http.TimeFormat)
		p, err := http.ParseTime(s)
		if err != nil {
			t.Fatalf("ParseTime(%q): %v", s, err)
		}
		d := new(big.Int).Sub(ns(u), ns(p))
		if d.Sign() < 0 || d.Cmp(big.NewInt(1000000000)) >= 0 {
			t.Fatalf("Format/ParseTime of %v moves the instant by %v ns", u, d)
		}
		if p.Nanosecond() != 0 {
			t.Fatalf("ParseTime result with sub-second part: %v", p)
		}
		if _, off := x.Zone(); off != 0 {
			if q, err := http.ParseTime(x.Format(http.TimeFormat)); err == nil && !q.Equal(p) {
				zoneMatters = true // the antecedent utcLoc(t) is needed
			}
		}
	}
	if !zoneMatters {
		t.Fatalf("no case showed that the zone matters: the generator is too weak")
	}
	for _, bad := range []string{"", " ", "0", "Mon, 02 Jan 2006 15:04:05 UTC", "yesterday"} {
		if _, err := http.ParseTime(bad); err == nil {
			t.Fatalf("ParseTime(%q) succeeded", bad)
		}
	}
	count("http-date", n)
}

func TestDurationRound(t *testing.T) {
	contract(t, "(time.Duration).Round(d, time.Second)")
	r := rng()
	n := iters()
	const sec = int64(time.Second)
	for i := 0; i < n; i++ {
		var d int64
		switch r.Intn(5) {
		case 0:
			d = r.Int63()
		case 1:
			d = math.MaxInt64 - r.Int63n(3*sec)
		case 2:
			d = r.Int63n(10 * sec)
		case 3:
			d = -r.Int63()
		default:
			d = r.Int63n(1000)*sec + []int64{0, 1, sec/2 - 1, sec / 2, sec/2 + 1, sec - 1}[r.Intn(6)]
		}
		res := int64(time.Duration(d).Round(time.Second))
		if d >= 0 && d <= math.MaxInt64-sec {
			if !(res%sec == 0 && res >= 0 && res-d <= sec/2 && d-res <= sec/2) {
				t.Fatalf("Round(%d) = %d", d, res)
			}
		}
		if d >= 0 && !(res >= 0 && res >= d-sec/2) {
			t.Fatalf("Round(%d) = %d (lower bound)", d, res)
		}
		if d < 0 && res > 0 {
			t.Fatalf("Round(%d) = %d (sign)", d, res)
		}
	}
	count("round", n)
}

func isDigits(s string) bool {
	if len(s) == 0 {
		return false
	}
	for i := 0; i < len(s); i++ {
		if s[i] < '0' || s[i] > '9' {
			return false
		}
	}
	return true
}

// dec64, decOverflow as std.go describes them: value saturated at maxI64 / true value above maxI64
func dec64(s string) (int64, bool) {
	v, ok := new(big.Int).SetString(s, 10)
	if !ok {
		panic(s)
	}
	if v.Cmp(big.NewInt(math.MaxInt64)) > 0 {
		return math.MaxInt64, true
	}
	return v.Int64(), false
}

func randDecimal(r *rand.Rand) string {
	digits := func(n int) string {
		b := make([]byte, n)
		for i := range b {
			b[i] = byte('0' + r.Intn(10))
		}
		return string(b)
	}
	switch r.Intn(12) {
	case 0:
		return digits(1 + r.Intn(25))
	case 1:
		return "+" + digits(1+r.Intn(22))
	case 2:
		return "-" + digits(1+r.Intn(22))
	case 3:
		return []string{"", "+", "-", " ", "1 ", " 1", "1_000", "0x10", "1e3", "１２", "--1", "+-1", "1.0", "\x00", "9223372036854775807", "9223372036854775808", "-9223372036854775808", "-9223372036854775809", "+9223372036854775807", "+9223372036854775808", "00000000000000000000000000001", "-0", "+0"}[r.Intn(23)]
	case 4:
		return strings.Repeat("0", r.Intn(30)) + digits(1+r.Intn(19))
	case 5:
		return strconv.FormatInt(math.MaxInt64-int64(r.Intn(3)), 10)
	case 6:
		return "922337203685477580" + string(byte('0'+r.Intn(10)))
	case 7:
		return digits(r.Intn(5)) + string(byte(r.Intn(256))) + digits(r.Intn(5))
	default:
		return strconv.FormatInt(r.Int63n(1<<uint(1+r.Intn(62))), 10)
	}
}

func checkParse(t *testing.T, what, s string, got int64, err error) {
	plus := len(s) > 1 && s[0] == '+' && isDigits(s[1:])
	minus := len(s) > 1 && s[0] == '-' && isDigits(s[1:])
	switch {
	case isDigits(s):
		v, of := dec64(s)
		if !of && !(err == nil && got == v) || of && !(err != nil && got == math.MaxInt64) {
			t.Fatalf("%s(%q) = %d, %v", what, s, got, err)
		}
	case plus:
		v, of := dec64(s[1:])
		if !of && !(err == nil && got == v) || of && !(err != nil && got == math.MaxInt64) {
			t.Fatalf("%s(%q) = %d, %v", what, s, got, err)
		}
	case minus:
		v, of := dec64(s[1:])
		if !of && !(err == nil && got == -v) || of && got != math.MinInt64 {
			t.Fatalf("%s(%q) = %d, %v", what, s, got, err)
		}
	default:
		if !(err != nil && got == 0) {
			t.Fatalf("%s(%q) = %d, %v", what, s, got, err)
		}
	}
}

func TestParseIntAtoi(t *testing.T) {
	contract(t, "strconv.ParseInt(s, 10, 64), strconv.Atoi, isDigits/dec64/decOverflow axioms")
	if strconv.IntSize != 64 {
		t.Fatalf("int is not 64 bit")
	}
	r := rng()
	n := iters()
	for i := 0; i < n; i++ {
		s := randDecimal(r)
		v, err := strconv.ParseInt(s, 10, 64)
		checkParse(t, "ParseInt", s, v, err)
		a, err := strconv.Atoi(s)
		checkParse(t, "Atoi", s, int64(a), err)
	}
	count("strconv", 2*n)
}

func randHeaderName(r *rand.Rand) string {
	return []string{"date", "Date", "DATE", "cache-control", "Cache-Control", "x-a", "X-A", "vary", "Vary", "te", "Te", "TE", "etag", "ETag", "Etag", "x_b", "X y", "", "ünï"}[r.Intn(19)]
}

func TestHeader(t *testing.T) {
	contract(t, "(net/http.Header).Get/Set/Del/Values/Clone, net/http.CanonicalHeaderKey, strings.Join")
	r := rng()
	n := iters() / 4
	for i := 0; i < n; i++ {
		h := http.Header{}
		for j := r.Intn(5); j > 0; j-- {
			k := http.CanonicalHeaderKey(randHeaderName(r))
			for m := r.Intn(3); m >= 0; m-- {
				h[k] = append(h[k], fmt.Sprint("v", r.Intn(4)))
			}
			if r.Intn(6) == 0 {
				h[k] = []string{}
			}
		}
		key := randHeaderName(r)
		ck := http.CanonicalHeaderKey(key)
		hget := func(h http.Header, k string) string {
			if v, ok := h[k]; ok && len(v) > 0 {
				return v[0]
			}
			return ""
		}
		if h.Get(key) != hget(h, ck) {
			t.Fatalf("Get(%q)", key)
		}
		vals := h.Values(key)
		if v, ok := h[ck]; ok {
			if !slices.Equal(vals, v) {
				t.Fatalf("Values(%q)", key)
			}
		} else if vals != nil {
			t.Fatalf("Values of an absent field is not nil")
		}
		c := h.Clone()
		if c == nil || len(c) != len(h) {
			t.Fatalf("Clone")
		}
		for k, v := range h {
			cv, ok := c[k]
			if !ok || len(cv) != len(v) || hget(c, k) != hget(h, k) || strings.Join(cv, ",") != strings.Join(v, ",") {
				t.Fatalf("Clone differs at %q", k)
			}
			if len(v) > 0 {
				cv[0] = "changed"
				if v[0] == "changed" {
					t.Fatalf("Clone shares values")
				}
			}
		}
		before := h.Clone()
		h.Set(key, "new")
		for k := range before {
			if k != ck && !slices.Equal(before[k], h[k]) {
				t.Fatalf("Set(%q) changed %q", key, k)
			}
		}
		if v := h[ck]; len(v) != 1 || v[0] != "new" || len(h) != len(before)+map[bool]int{true: 0, false: 1}[before[ck] != nil] {
			t.Fatalf("Set(%q): %v", key, h)
		}
		h.Del(key)
		if _, ok := h[ck]; ok {
			t.Fatalf("Del(%q)", key)
		}
		for k := range before {
			if k != ck && !slices.Equal(before[k], h[k]) {
				t.Fatalf("Del(%q) changed %q", key, k)
			}
		}
	}
	if http.Header(nil).Clone() != nil {
		t.Fatalf("Clone(nil) != nil")
	}
	if strings.Join(nil, ",") != "" || strings.Join([]string{"a b"}, ",") != "a b" {
		t.Fatalf("Join none/one")
	}
	count("header", n)
}

func randText(r *rand.Rand, alphabet string, max int) string {
	b := make([]byte, r.Intn(max+1))
	for i := range b {
		b[i] = alphabet[r.Intn(len(alphabet))]
	}
	return string(b)
}

const asciiAlphabet = "abcxyzABCXYZ019 -_=,;\"\\\t/.~%:[]"
const wildAlphabet = "abKkSs \t,=\x00\x7f\x80\xc5\xbf\xe2\x84\xaa\xc4\xb0\xff\xfe\xcc\x87"

func TestStringsBasics(t *testing.T) {
	contract(t, "strings.HasPrefix/HasSuffix/LastIndexByte/Contains/Cut/CutPrefix/TrimSpace, net/textproto.TrimString (trimOWS-len), strings.Builder")
	r := rng()
	n := iters()
	for i := 0; i < n; i++ {
		s := randText(r, wildAlphabet, 12)
		p := randText(r, wildAlphabet, 3)
		if strings.HasPrefix(s, p) != (len(p) <= len(s) && s[:len(p)] == p) {
			t.Fatalf("HasPrefix")
		}
		if strings.HasSuffix(s, p) != (len(p) <= len(s) && s[len(s)-len(p):] == p) {
			t.Fatalf("HasSuffix")
		}
		c := byte(wildAlphabet[r.Intn(len(wildAlphabet))])
		li := strings.LastIndexByte(s, c)
		if li < -1 || li >= len(s) || li >= 0 && s[li] != c {
			t.Fatalf("LastIndexByte")
		}
		for j := li + 1; j < len(s); j++ {
			if s[j] == c {
				t.Fatalf("LastIndexByte is not the last")
			}
		}
		b, a, found := strings.Cut(s, p)
		if found && s != b+p+a || !found && (b != s || a != "") {
			t.Fatalf("Cut(%q,%q)", s, p)
		}
		if found && strings.Contains(b, p) && p != "" {
			t.Fatalf("Cut is not at the first occurrence")
		}
		rest, ok := strings.CutPrefix(s, p)
		if ok != strings.HasPrefix(s, p) || ok && rest != s[len(p):] || !ok && rest != s {
			t.Fatalf("CutPrefix")
		}
		if len(textproto.TrimString(s)) > len(s) || len(strings.TrimSpace(s)) > len(s) {
			t.Fatalf("Trim grows")
		}
		var sb strings.Builder
		want := ""
		for j := 0; j < 4; j++ {
			switch r.Intn(4) {
			case 0:
				sb.WriteByte(c)
				want += string([]byte{c})
			case 1:
				q := rune(r.Intn(128))
				sb.WriteRune(q)
				want += string([]byte{byte(q)})
			case 2:
				sb.WriteString(p)
				want += p
			default:
				if r.Intn(5) == 0 {
					sb.Reset()
					want = ""
				}
			}
			if sb.String() != want || sb.Len() != len(want) {
				t.Fatalf("Builder")
			}
		}
	}
	count("strings", n)
}

func isASCII(s string) bool {
	for i := 0; i < len(s); i++ {
		if s[i] >= 0x80 {
			return false
		}
	}
	return true
}

func TestCaseFolding(t *testing.T) {
	contract(t, "strings.ToLower / strings.EqualFold on ASCII strings (lower-idem, lower-len, lower-ascii)")
	r := rng()
	n := iters()
	nonASCIIDiffers := false
	for i := 0; i < n; i++ {
		alpha := asciiAlphabet
		if i%2 == 1 {
			alpha = wildAlphabet
		}
		s := randText(r, alpha, 8)
		u := randText(r, alpha, 8)
		if i%3 == 0 {
			u = strings.ToUpper(s)
		}
		ls := strings.ToLower(s)
		if strings.ToLower(ls) != ls {
			t.Fatalf("ToLower is not idempotent on %q", s)
		}
		if isASCII(s) {
			if len(ls) != len(s) {
				t.Fatalf("ToLower changes the length of the ASCII string %q", s)
			}
			for j := 0; j < len(s); j++ {
				want := s[j]
				if want >= 'A' && want <= 'Z' {
					want += 'a' - 'A'
				}
				if ls[j] != want {
					t.Fatalf("ToLower(%q)[%d]", s, j)
				}
			}
		} else if len(ls) != len(s) {
			nonASCIIDiffers = true
		}
		if isASCII(s) && isASCII(u) {
			if strings.EqualFold(s, u) != (strings.ToLower(s) == strings.ToLower(u)) {
				t.Fatalf("EqualFold(%q,%q) disagrees with ToLower on ASCII", s, u)
			}
		} else if strings.EqualFold(s, u) != (strings.ToLower(s) == strings.ToLower(u)) {
			nonASCIIDiffers = true
		}
	}
	if !nonASCIIDiffers {
		t.Fatalf("expected the ASCII restriction to matter (Kelvin sign, long s, invalid UTF-8)")
	}
	count("case", n)
}

func TestErrors(t *testing.T) {
	contract(t, "errors.New / fmt.Errorf / errors.Join / errors.Is")
	sentinel := errors.New("not exist")
	other := errors.New("other")
	if errors.New("") == nil || fmt.Errorf("x") == nil {
		t.Fatalf("nil error")
	}
	if errors.Join(nil, nil) != nil {
		t.Fatalf("Join(nil, nil) != nil")
	}
	for _, l := range [][]error{{sentinel}, {nil, other}, {sentinel, nil, other}, {other, sentinel}} {
		if errors.Join(l...) == nil {
			t.Fatalf("Join lost an error")
		}
		if l[0] == sentinel && !errors.Is(errors.Join(l...), sentinel) {
			t.Fatalf("Join(first...) is not first")
		}
	}
	if !errors.Is(fmt.Errorf("w: %w", sentinel), sentinel) {
		t.Fatalf("Is through %%w")
	}
	count("errors", 8)
}

func TestRequestClone(t *testing.T) {
	contract(t, "(*net/http.Request).Clone / WithContext / Context")
	r := rng()
	n := iters() / 10
	for i := 0; i < n; i++ {
		req, err := http.NewRequest([]string{"GET", "POST", "QUERY"}[r.Intn(3)], "http://example.com/a?b=c", nil)
		if err != nil {
			t.Fatal(err)
		}
		switch r.Intn(3) {
		case 0:
			req.Header = nil
		case 1:
			req.Header.Add("Cache-Control", "max-age=1")
			req.Header.Add("Cache-Control", "no-cache")
			req.Header.Set("Range", "bytes=0-1")
		}
		c := req.Clone(context.Background())
		if c == nil || c == req || c.Method != req.Method || c.URL == nil || c.URL == req.URL {
			t.Fatalf("Clone shape")
		}
		if (c.Header == nil) != (req.Header == nil) {
			t.Fatalf("Clone header nil-ness")
		}
		for k, v := range req.Header {
			if !slices.Equal(c.Header[k], v) {
				t.Fatalf("Clone header")
			}
		}
		if req.Header != nil {
			c.Header.Set("X-New", "1")
			if req.Header.Get("X-New") != "" {
				t.Fatalf("Clone shares the header map")
			}
		}
		w := req.WithContext(context.Background())
		if w == nil || w == req || w.Method != req.Method || w.URL != req.URL {
			t.Fatalf("WithContext shape")
		}
		if req.Header != nil {
			w.Header.Set("X-Shared", "1")
			if req.Header.Get("X-Shared") != "1" {
				t.Fatalf("WithContext does not share the header map")
			}
		}
		if req.Context() == nil {
			t.Fatalf("Context nil")
		}
	}
	count("request", n)
}

type refJSON struct {
	ResponseID   string            `json:"id"`
	Vary         string            `json:"vary"`
	VaryResolved map[string]string `json:"vary_resolved,omitempty"`
}

func TestJSONRoundTrip(t *testing.T) {
	contract(t, "encoding/json.Marshal/Unmarshal: strings that are valid UTF-8 survive; others do not (precondition index-strings-are-valid-utf8-when-written)")
	r := rng()
	n := iters() / 4
	lossy := false
	for i := 0; i < n; i++ {
		mk := func() string { return randText(r, wildAlphabet+"<>& ", 10) }
		in := []refJSON{{mk(), mk(), map[string]string{mk(): mk()}}, {mk(), "", nil}}
		b, err := json.Marshal(in)
		if err != nil {
			t.Fatal(err)
		}
		var out []refJSON
		if err := json.Unmarshal(b, &out); err != nil {
			t.Fatalf("Unmarshal(Marshal): %v", err)
		}
		for j := range in {
			allValid := utf8.ValidString(in[j].ResponseID) && utf8.ValidString(in[j].Vary)
			for k, v := range in[j].VaryResolved {
				allValid = allValid && utf8.ValidString(k) && utf8.ValidString(v)
			}
			same := in[j].ResponseID == out[j].ResponseID && in[j].Vary == out[j].Vary && maps.Equal(in[j].VaryResolved, out[j].VaryResolved)
			if allValid && !same {
				t.Fatalf("valid UTF-8 strings changed: %q -> %q", in[j], out[j])
			}
			if !same {
				lossy = true
			}
		}
	}
	if !lossy {
		t.Fatalf("generator never produced a lossy string")
	}
	var refs []*refJSON
	if err := json.Unmarshal([]byte("[null]"), &refs); err != nil || len(refs) != 1 || refs[0] != nil {
		t.Fatalf("[null] decodes to %v, %v", refs, err)
	}
	count("json", n)
}

func TestSlicesMapsCmp(t *testing.T) {
	contract(t, "slices.SortFunc (permutation), slices.Clip, maps.Clone, cmp.Or (two values), slices.ContainsFunc")
	r := rng()
	n := iters() / 4
	for i := 0; i < n; i++ {
		x := make([]int, r.Intn(8))
		for j := range x {
			x[j] = r.Intn(5)
		}
		y := slices.Clone(x)
		slices.SortFunc(y, func(a, b int) int { return cmp.Compare(a, b) })
		a, b := slices.Clone(x), slices.Clone(y)
		slices.Sort(a)
		slices.Sort(b)
		if !slices.Equal(a, b) || len(y) != len(x) {
			t.Fatalf("SortFunc is no permutation")
		}
		c := slices.Clip(x)
		if !slices.Equal(c, x) {
			t.Fatalf("Clip")
		}
		m := map[string]int{}
		for j := r.Intn(4); j > 0; j-- {
			m[fmt.Sprint(r.Intn(6))] = r.Intn(3)
		}
		mc := maps.Clone(m)
		if mc == nil || !maps.Equal(mc, m) {
			t.Fatalf("maps.Clone")
		}
		mc["new"] = 1
		if _, ok := m["new"]; ok {
			t.Fatalf("maps.Clone shares")
		}
		p, q := r.Intn(2), r.Intn(3)
		want := q
		if p != 0 {
			want = p
		}
		if cmp.Or(p, q) != want {
			t.Fatalf("cmp.Or")
		}
		s1, s2 := []string{"", "a"}[r.Intn(2)], []string{"", "b"}[r.Intn(2)]
		ws := s2
		if s1 != "" {
			ws = s1
		}
		if cmp.Or(s1, s2) != ws {
			t.Fatalf("cmp.Or strings")
		}
	}
	var nm map[string]int
	if maps.Clone(nm) != nil {
		t.Fatalf("maps.Clone(nil)")
	}
	count("slices", n)
}

func TestBase64(t *testing.T) {
	contract(t, "(*encoding/base64.Encoding).EncodeToString / DecodeString: RawURLEncoding alphabet (b64-alphabet), RawStdEncoding round trip")
	r := rng()
	n := iters()
	sawSlash := false
	for i := 0; i < n; i++ {
		b := make([]byte, r.Intn(40))
		r.Read(b)
		u := base64.RawURLEncoding.EncodeToString(b)
		for j := 0; j < len(u); j++ {
			if u[j] == '~' || u[j] == '/' || u[j] == '.' {
				t.Fatalf("RawURLEncoding produced %q", u)
			}
		}
		s := base64.RawStdEncoding.EncodeToString(b)
		if strings.Contains(s, "/") {
			sawSlash = true
		}
		d, err := base64.RawStdEncoding.DecodeString(s)
		if err != nil || !bytes.Equal(d, b) {
			t.Fatalf("RawStdEncoding round trip")
		}
		if !utf8.ValidString(s) || !utf8.ValidString(u) {
			t.Fatalf("base64 text is not valid UTF-8")
		}
	}
	if !sawSlash {
		t.Fatalf("RawStdEncoding never produced '/': generator too weak")
	}
	count("base64", n)
}

func sepFree(s string) bool { return !strings.Contains(s, "/") }

func TestFilepath(t *testing.T) {
	contract(t, "path/filepath.Join / Dir / Base on non-empty separator-free components other than . and .. ; crypto/rand.Text")
	if filepath.Separator != '/' {
		t.Skip("model is for '/' separated paths")
	}
	r := rng()
	n := iters()
	for i := 0; i < n; i++ {
		k := 1 + r.Intn(5)
		parts := make([]string, k)
		for j := range parts {
			for parts[j] == "" || parts[j] == "." || parts[j] == ".." {
				parts[j] = randText(r, "abAB09-_~.", 6)
			}
		}
		p := filepath.Join(parts...)
		got := strings.Split(p, "/")
		if !slices.Equal(got, parts) {
			t.Fatalf("Join(%q) = %q", parts, p)
		}
		if filepath.Base(p) != parts[k-1] {
			t.Fatalf("Base(Join)")
		}
		if len(filepath.Dir(p)) == 0 {
			t.Fatalf("Dir empty")
		}
		// last component separator-free, first anything non-empty: the base is the last component
		dir := randText(r, "ab/.", 6)
		if dir != "" {
			if q := filepath.Join(dir, parts[k-1]); filepath.Base(q) != parts[k-1] {
				t.Fatalf("Base(Join(%q,%q)) = %q", dir, parts[k-1], filepath.Base(q))
			}
		}
	}
	for i := 0; i < 200; i++ {
		x := crand.Text()
		if len(x) != 26 || !sepFree(x) || strings.ContainsAny(x, "~.") {
			t.Fatalf("rand.Text() = %q", x)
		}
	}
	count("filepath", n)
}

func TestAEAD(t *testing.T) {
	contract(t, "crypto/cipher.AEAD (AES-GCM) Seal/Open/NonceSize with nil additional data; io.ReadFull; aes.NewCipher key lengths and key dependence")
	r := rng()
	key := make([]byte, 32)
	r.Read(key)
	blk, err := aes.NewCipher(key)
	if err != nil || blk == nil {
		t.Fatal(err)
	}
	g, err := cipher.NewGCM(blk)
	if err != nil || g == nil {
		t.Fatal(err)
	}
	if g.NonceSize() <= 0 || g.NonceSize() >= 4096 {
		t.Fatalf("nonce size")
	}
	n := iters() / 10
	for i := 0; i < n; i++ {
		nonce := make([]byte, g.NonceSize())
		if m, err := io.ReadFull(r, nonce); err != nil || m != len(nonce) {
			t.Fatalf("ReadFull")
		}
		pt := make([]byte, r.Intn(64))
		r.Read(pt)
		pt0, nonce0 := slices.Clone(pt), slices.Clone(nonce)
		dst := make([]byte, r.Intn(8), 8+r.Intn(200))
		r.Read(dst)
		dst0 := slices.Clone(dst)
		ct := g.Seal(dst, nonce, pt, nil)
		if !bytes.Equal(ct[:len(dst0)], dst0) || !bytes.Equal(pt, pt0) || !bytes.Equal(nonce, nonce0) {
			t.Fatalf("Seal does not append / writes its inputs")
		}
		sealed := ct[len(dst0):]
		if again := g.Seal(nil, nonce, pt, nil); !bytes.Equal(again, sealed) {
			t.Fatalf("Seal is not a function of (nonce, plaintext)")
		}
		c2 := slices.Clone(sealed)
		out, err := g.Open(c2[:0], nonce, c2, nil)
		if err != nil || !bytes.Equal(out, pt) {
			t.Fatalf("Open(Seal)")
		}
		// a ciphertext Open accepts is the sealing of what it returns
		c3 := slices.Clone(sealed)
		if r.Intn(2) == 0 && len(c3) > 0 {
			c3[r.Intn(len(c3))] ^= byte(1 << uint(r.Intn(8)))
		} else if len(c3) > 0 {
			c3 = c3[:r.Intn(len(c3))]
		}
		c3copy := slices.Clone(c3)
		if out, err := g.Open(nil, nonce, c3, nil); err == nil && !bytes.Equal(g.Seal(nil, nonce, out, nil), c3copy) {
			t.Fatalf("Open accepted a ciphertext that is not a sealing")
		}
	}
	count("aead", n)
	// aes.NewCipher accepts keys of 16, 24 and 32 bytes only; the cipher depends on every key byte
	// (two keys differing in one byte seal differently); DecodeString is a function of its text.
	kn := 0
	for l := 0; l <= 80; l++ {
		k := make([]byte, l)
		r.Read(k)
		b, err := aes.NewCipher(k)
		if (err == nil) != (l == 16 || l == 24 || l == 32) {
			t.Fatalf("aes.NewCipher accepts/rejects a key of %d bytes", l)
		}
		kn++
		if err != nil {
			continue
		}
		g1, _ := cipher.NewGCM(b)
		nonce := make([]byte, g1.NonceSize())
		for j := 0; j < l; j++ {
			k2 := slices.Clone(k)
			k2[j] ^= 0x40
			b2, _ := aes.NewCipher(k2)
			g2, _ := cipher.NewGCM(b2)
			if bytes.Equal(g1.Seal(nil, nonce, []byte("x"), nil), g2.Seal(nil, nonce, []byte("x"), nil)) {
				t.Fatalf("key byte %d of %d does not matter", j, l)
			}
			kn++
		}
	}
	count("aes-key-lengths", kn)
}

func TestGhostFileSystem(t *testing.T) {
	contract(t, "(*os.Root).Open/Create/OpenFile(O_WRONLY|O_CREATE|O_EXCL)/Rename/Remove, (*os.File).Write/Sync/Close, io.ReadAll")
	if os.O_WRONLY|os.O_CREATE|os.O_EXCL != 193 {
		t.Fatalf("O_WRONLY|O_CREATE|O_EXCL = %d, modelled as 193", os.O_WRONLY|os.O_CREATE|os.O_EXCL)
	}
	root, err := os.OpenRoot(t.TempDir())
	if err != nil {
		t.Fatal(err)
	}
	defer root.Close()
	model := map[string]string{}
	r := rng()
	names := []string{"a", "b", "c~", ".tmp-x"}
	n := 4000
	for i := 0; i < n; i++ {
		name := names[r.Intn(len(names))]
		old, had := model[name]
		switch r.Intn(6) {
		case 0:
			f, err := root.Open(name)
			if (err == nil) != had {
				t.Fatalf("Open(%q) err=%v had=%v", name, err, had)
			}
			if err != nil {
				if f != nil || !errors.Is(err, os.ErrNotExist) {
					t.Fatalf("Open absent: %v", err)
				}
				break
			}
			b, err := io.ReadAll(f)
			if err != nil || string(b) != old {
				t.Fatalf("ReadAll(%q) = %q, %v; model %q", name, b, err, old)
			}
			f.Close()
		case 1:
			f, err := root.Create(name)
			if err != nil || f == nil {
				t.Fatalf("Create: %v", err)
			}
			model[name] = ""
			data := []byte(randText(r, "xyz\x00\xff", 9))
			if _, err := f.Write(data); err != nil {
				t.Fatal(err)
			}
			if _, err := f.Write(data); err != nil {
				t.Fatal(err)
			}
			model[name] = string(data) + string(data)
			if f.Sync() != nil || f.Close() != nil {
				t.Fatalf("Sync/Close")
			}
		case 2:
			f, err := root.OpenFile(name, os.O_WRONLY|os.O_CREATE|os.O_EXCL, 0o600)
			if (err == nil) == had {
				t.Fatalf("OpenFile(EXCL) on %q: err=%v had=%v", name, err, had)
			}
			if err != nil {
				if f != nil {
					t.Fatalf("file with error")
				}
				break
			}
			model[name] = ""
			data := []byte(randText(r, "pq", 5))
			if _, err := f.Write(data); err != nil {
				t.Fatal(err)
			}
			model[name] = string(data)
			f.Close()
		case 3:
			to := names[r.Intn(len(names))]
			err := root.Rename(name, to)
			if (err == nil) != had {
				t.Fatalf("Rename(%q,%q) err=%v had=%v", name, to, err, had)
			}
			if err == nil && name != to {
				model[to] = old
				delete(model, name)
			}
		case 4:
			err := root.Remove(name)
			if (err == nil) != had {
				t.Fatalf("Remove(%q) err=%v had=%v", name, err, had)
			}
			if err != nil && !errors.Is(err, os.ErrNotExist) {
				t.Fatalf("Remove absent: %v", err)
			}
			delete(model, name)
		default:
			// everything the model says exists reads back as the model says
			for k, v := range model {
				f, err := root.Open(k)
				if err != nil {
					t.Fatalf("model has %q: %v", k, err)
				}
				b, _ := io.ReadAll(f)
				f.Close()
				if string(b) != v {
					t.Fatalf("%q holds %q, model %q", k, b, v)
				}
			}
		}
	}
	count("fs", n)
}

type failingBody struct {
	data []byte
	fail bool
}

func (f *failingBody) Read(p []byte) (int, error) {
	if len(f.data) == 0 {
		if f.fail {
			return 0, errors.New("connection reset")
		}
		return 0, io.EOF
	}
	n := copy(p, f.data[:1])
	f.data = f.data[n:]
	return n, nil
}
func (f *failingBody) Close() error { return nil }

func TestDumpAndReadResponse(t *testing.T) {
	contract(t, "net/http/httputil.DumpResponse (error => no bytes), net/http.ReadResponse (exactly one of response / error; header non-nil), net/url.Parse (exactly one of URL / error)")
	r := rng()
	n := iters() / 20
	for i := 0; i < n; i++ {
		fail := r.Intn(2) == 0
		resp := &http.Response{StatusCode: 200, ProtoMajor: 1, ProtoMinor: 1, Header: http.Header{"X": {"y"}}, Body: &failingBody{data: []byte(randText(r, "ab\r\n", 20)), fail: fail}, ContentLength: -1}
		b, err := httputil.DumpResponse(resp, true)
		if fail != (err != nil) {
			t.Fatalf("DumpResponse err=%v with fail=%v", err, fail)
		}
		if err != nil && len(b) != 0 {
			t.Fatalf("DumpResponse returned bytes with an error")
		}
		raw := randText(r, "HTP/1.0 2\r\n:aX-", 40)
		if i%2 == 0 {
			raw = "HTTP/1.1 200 OK\r\n" + raw
		}
		got, err := http.ReadResponse(bufioReader(raw), nil)
		if (got != nil) == (err != nil) {
			t.Fatalf("ReadResponse(%q) = %v, %v", raw, got, err)
		}
		if got != nil && got.Header == nil {
			t.Fatalf("ReadResponse header nil")
		}
		u, err := url.Parse(randText(r, "htp:/[]%a1@?#. \x7f\xff", 14))
		if (u != nil) == (err != nil) {
			t.Fatalf("url.Parse")
		}
	}
	count("http-io", n)
}

func TestContextWithTimeout(t *testing.T) {
	contract(t, "context.WithTimeout: non-nil results, deadline no later than the timeout")
	for _, d := range []time.Duration{time.Nanosecond, time.Millisecond, time.Hour} {
		before := time.Now()
		ctx, cancel := context.WithTimeout(context.Background(), d)
		if ctx == nil || cancel == nil {
			t.Fatalf("nil")
		}
		dl, ok := ctx.Deadline()
		if !ok || dl.Sub(before) < d || dl.Sub(time.Now()) > d {
			t.Fatalf("deadline %v for %v", dl.Sub(before), d)
		}
		cancel()
	}
	if context.Background() == nil {
		t.Fatalf("Background nil")
	}
	count("context", 3)
}
