module verifconformance

go 1.25
