package conformance

import (
	"bufio"
	"strings"
)

func bufioReader(s string) *bufio.Reader { return bufio.NewReader(strings.NewReader(s)) }
