package main

// Verification-condition generation for one SSA function under contract.

import (
	"fmt"
	"go/token"
	"go/types"
	"sort"
	"strings"

	"golang.org/x/tools/go/ssa"
)

type Obligation struct {
	Name   string
	Kind   string
	Props  []string
	Func   string
	Clause string
	Pos    string
	seq    int
	reach  *T
	goal   *T
	enc    *Enc
	values []string
	Res    SolveResult
	resultTerms []*T
	vc          *fnVC
	keep        map[int]bool // blocks whose facts are relevant (ancestors of the obligation's block)
	// Trivial: decided without a solver (goal is syntactically true)
	Trivial bool
}

type addrInfo struct {
	kind  string // field | elem | cell
	base  *T     // Ref (field, cell), Slice or Ref-to-array (elem)
	owner string
	field string
	typ   types.Type // type of the addressed value
	idx   *T
	array bool // base is a pointer to an array
}

type loopInfo struct {
	ordinal int
	header  *ssa.BasicBlock
	body    map[int]bool
	invs    []*Clause
	decrs   []*Clause
	decrHead []*T
	phis    []*ssa.Phi
	state   *State // state at header after havoc
	hvars   map[string]*T
}

type deferRec struct {
	instr *ssa.Defer
	reach *T
}

type fnVC struct {
	callReqHit map[int]bool // callsite clauses that matched at least one call
	rangeHas map[*ssa.Range]string // has-heap of the ranged map's type when the range began
	w       *World
	fn      *ssa.Function
	ct      *Contract
	e       *Enc
	vals    map[ssa.Value]*T
	addrs   map[ssa.Value]*addrInfo
	reach   map[int]*T
	edge    map[[2]int]*T
	exit    map[int]*State
	order   []*ssa.BasicBlock
	back    map[[2]int]bool
	loops   map[int]*loopInfo
	obls    []*Obligation
	entry   *State
	defers  []deferRec
	params  map[string]*T
	dbg     map[string][]dbgRef
	notes   []string
	unsup   []string
	callOrd map[string]int
	safety  []string
	curBlk  *ssa.BasicBlock
	spawned []*ssa.Go
	closures   []closureRec
	parent     *fnVC
	parentBlk  int
	startState *State
	baseReach  *T
	onReturn   func(i *ssa.Return, st *State)
	reachOverride *T
	iterOrd    map[ssa.Instruction]int
	ancCache map[int]map[int]bool
	ifaceNames []string
	instrTag map[ssa.Instruction]string
	curInstr ssa.Instruction
	ordinal map[ssa.Instruction]int // static per-kind ordinal (source order), for stable obligation names
}

type dbgRef struct {
	blk    *ssa.BasicBlock
	x      ssa.Value
	isAddr bool
}

func (v *fnVC) shortName() string {
	n := v.fn.RelString(nil)
	n = strings.ReplaceAll(n, "github.com/bartventer/httpcache/", "")
	n = strings.ReplaceAll(n, "github.com/bartventer/", "")
	return n
}

func (v *fnVC) unsupported(format string, a ...any) {
	msg := fmt.Sprintf(format, a...)
	v.unsup = append(v.unsup, msg)
}

func (v *fnVC) pos(p token.Pos) string {
	if !p.IsValid() {
		return ""
	}
	ps := v.w.prog.Fset.Position(p)
	return fmt.Sprintf("%s:%d", strings.TrimPrefix(ps.Filename, v.w.repo+"/"), ps.Line)
}

// ---- CFG ordering ---------------------------------------------------------

func (v *fnVC) computeOrder() {
	v.back = map[[2]int]bool{}
	visited := map[int]bool{}
	onStack := map[int]bool{}
	var post []*ssa.BasicBlock
	var dfs func(b *ssa.BasicBlock)
	dfs = func(b *ssa.BasicBlock) {
		visited[b.Index] = true
		onStack[b.Index] = true
		for _, s := range b.Succs {
			if onStack[s.Index] {
				v.back[[2]int{b.Index, s.Index}] = true
				continue
			}
			if !visited[s.Index] {
				dfs(s)
			}
		}
		onStack[b.Index] = false
		post = append(post, b)
	}
	dfs(v.fn.Blocks[0])
	for i := len(post) - 1; i >= 0; i-- {
		v.order = append(v.order, post[i])
	}
	// loops
	v.loops = map[int]*loopInfo{}
	var headers []int
	for be := range v.back {
		h := be[1]
		if _, ok := v.loops[h]; !ok {
			v.loops[h] = &loopInfo{header: v.fn.Blocks[h], body: map[int]bool{h: true}}
			headers = append(headers, h)
		}
		li := v.loops[h]
		// natural loop body: nodes that reach the back-edge source without passing h
		var stack []*ssa.BasicBlock
		if !li.body[be[0]] {
			li.body[be[0]] = true
			stack = append(stack, v.fn.Blocks[be[0]])
		}
		for len(stack) > 0 {
			n := stack[len(stack)-1]
			stack = stack[:len(stack)-1]
			for _, p := range n.Preds {
				if !li.body[p.Index] {
					li.body[p.Index] = true
					stack = append(stack, p)
				}
			}
		}
	}
	sort.Ints(headers)
	for i, h := range headers {
		li := v.loops[h]
		li.ordinal = i
		for _, in := range li.header.Instrs {
			if phi, ok := in.(*ssa.Phi); ok {
				li.phis = append(li.phis, phi)
			}
		}
		if v.ct != nil {
			for _, c := range v.ct.Invs {
				if c.Loop == i {
					li.invs = append(li.invs, c)
				}
			}
			for _, c := range v.ct.Decrs {
				if c.Loop == i {
					li.decrs = append(li.decrs, c)
				}
			}
		}
	}
}

// ---- values ------------------------------------------------------------------

func (v *fnVC) val(x ssa.Value) *T {
	if t, ok := v.vals[x]; ok {
		return t
	}
	switch c := x.(type) {
	case *ssa.Const:
		if c.Value == nil {
			z := v.e.zero(c.Type())
			return z
		}
		return v.e.constTerm(c.Value, c.Type())
	case *ssa.Global:
		return v.w.globalAddr(v.e, c)
	case *ssa.Function:
		sym := "fn$" + sanitize(funcKey(c))
		if !v.e.declSeen[sym] {
			v.e.declConst(sym, sFn)
			v.e.decls = append(v.e.decls, fmt.Sprintf("(assert (not (= %s nilFn)))", sym))
		}
		t := mk(sym, sFn)
		t.GoT = c.Type()
		v.vals[x] = t
		return t
	case *ssa.Builtin:
		return mk("nilFn", sFn)
	}
	v.unsupported("use of undefined value %s (%T) in %s", x.Name(), x, v.shortName())
	t := v.e.freshConst("undef$"+sanitize(x.Name()), v.e.sortOf(x.Type()))
	t.GoT = x.Type()
	v.vals[x] = t
	return t
}

func (v *fnVC) setVal(x ssa.Value, t *T) {
	if t.GoT == nil {
		t = t.withGo(x.Type())
	}
	v.vals[x] = t
}

// name a value with a constant so later terms stay small and models are readable
func (v *fnVC) bind(x ssa.Value, t *T) *T {
	if t.Sort.Kind == KTuple {
		v.setVal(x, t)
		return t
	}
	name := fmt.Sprintf("%s$%d", sanitize(x.Name()), v.curBlk.Index)
	v.e.fresh++
	name = fmt.Sprintf("%s!%d", name, v.e.fresh)
	v.e.declConst(name, t.Sort)
	r := mk(name, t.Sort)
	r.GoT = x.Type()
	r.Op, r.Args = t.Op, t.Args
	v.e.assume(tEq(r, t))
	v.vals[x] = r
	return r
}

// ---- obligations -----------------------------------------------------------------

func (v *fnVC) oblige(kind, name string, props []string, clause string, pos string, reach, goal *T, st *State) {
	full := v.shortName() + "/" + name
	o := &Obligation{Name: full, Kind: kind, Props: props, Func: v.shortName(), Clause: clause, Pos: pos, seq: v.e.seq, reach: reach, goal: goal, enc: v.e}
	if goal.S == "true" {
		o.Trivial = true
	}
	v.obls = append(v.obls, o)
	o.values = v.modelTerms()
	o.vc = v
	if v.parent != nil {
		r := v
		for r.parent.parent != nil {
			r = r.parent
		}
		o.keep = r.parent.ancestors(r.parentBlk)
	} else if v.curBlk != nil {
		o.keep = v.ancestors(v.curBlk.Index)
	}
	// after the check, the fact may be assumed
	if t := tImp(reach, goal); t.S != "true" {
		v.e.seq++
		v.e.cmds = append(v.e.cmds, cmd{seq: v.e.seq, text: "(assert " + t.S + ")", obl: true, blk: v.e.curBlk})
	}
}

func (v *fnVC) safetyOb(what string, p token.Pos, goal *T) {
	if rc := v.root().ct; (v.ct != nil && v.ct.NoSafety) || (v.parent != nil && rc != nil && rc.NoSafety) {
		v.e.assume(tImp(v.reach[v.curBlk.Index], goal))
		return
	}
	name := fmt.Sprintf("safety:%s@%s", what, v.instrTag[v.curInstr])
	if n := v.callOrd[name]; n > 0 {
		v.callOrd[name] = n + 1
		name = fmt.Sprintf("%s.%d", name, n)
	} else {
		v.callOrd[name] = 1
	}
	v.oblige("safety", name, v.safety, what+" cannot fault", v.pos(p), v.reach[v.curBlk.Index], goal, nil)
}

// ---- main -------------------------------------------------------------------------

func (w *World) verifyFunc(fn *ssa.Function, ct *Contract, safetyProps []string) (vc *fnVC, err error) {
	v := &fnVC{
		w: w, fn: fn, ct: ct, e: w.newEncFor(fn.Pkg.Pkg),
		vals: map[ssa.Value]*T{}, addrs: map[ssa.Value]*addrInfo{},
		reach: map[int]*T{}, edge: map[[2]int]*T{}, exit: map[int]*State{},
		params: map[string]*T{}, dbg: map[string][]dbgRef{}, callOrd: map[string]int{},
		safety: safetyProps,
	}
	defer func() {
		if r := recover(); r != nil {
			if se, ok := r.(specErr); ok {
				err = fmt.Errorf("%s: %s", v.shortName(), se.msg)
				vc = v
				return
			}
			panic(r)
		}
	}()
	if len(fn.Blocks) == 0 {
		return v, fmt.Errorf("%s has no body", v.shortName())
	}
	if ct != nil && ct.Implements != "" {
		ict := w.specs.Contracts[ct.Implements]
		if ict == nil {
			return v, fmt.Errorf("%s implements %s, which has no contract", v.shortName(), ct.Implements)
		}
		// behavioural subtyping: the method is verified against the interface's contract
		// (plus its own extra clauses); interface parameter names are bound by position.
		eff := *ct
		eff.Requires = append(append([]*Clause{}, ict.Requires...), ct.Requires...)
		eff.Ensures = nil
		for _, c := range ict.Ensures {
			if !c.Ghost {
				eff.Ensures = append(eff.Ensures, c)
			}
		}
		eff.Ensures = append(eff.Ensures, ct.Ensures...)
		eff.Lets = append(append([]letDef{}, ict.Lets...), ct.Lets...)
		eff.Props = unionProps(ct.Props, ict.Props)
		if !ct.HasAsg {
			eff.HasAsg, eff.Assigns = ict.HasAsg, ict.Assigns
		}
		eff.Fresh = eff.Fresh || ict.Fresh
		ct = &eff
		v.ct = ct
		v.ifaceNames = ict.ParamNm
	}
	if ct != nil {
		for _, r := range ct.Reveal {
			v.e.reveal[r] = true
		}
	}
	v.computeOrder()
	v.computeOrdinals()
	v.entry = v.e.newState()
	e := v.e
	e.assume(mk(sapp(">", v.entry.next().S, "0"), sBool))
	for _, p := range fn.Params {
		t := v.inputConst("p$"+p.Name(), p.Type())
		v.vals[p] = t
		v.params[p.Name()] = t
	}
	for _, p := range fn.FreeVars {
		t := v.inputConst("fv$"+p.Name(), p.Type())
		v.vals[p] = t
		v.params[p.Name()] = t
	}
	// a plain function wired in through a function adapter (XxxFunc(f).Method calls f) implements the
	// interface method without its receiver: the interface's first parameter name is skipped
	ifn := v.ifaceNames
	if fn.Signature.Recv() == nil && len(ifn) == len(fn.Params)+1 {
		ifn = ifn[1:]
	}
	for k, nm := range ifn {
		if k < len(fn.Params) {
			if _, clash := v.params[nm]; !clash {
				v.params[nm] = v.vals[fn.Params[k]]
			}
		}
	}
	// requires
	if ct != nil {
		x := v.exFor(v.entry, v.entry, nil)
		for _, c := range ct.Requires {
			e.assumeTagged(x.Bool(c.Expr), c.Props)
		}
	}
	for _, b := range v.order {
		v.block(b)
	}
	if ct != nil && v.parent == nil {
		for k, c := range ct.CallReqs {
			if !v.callReqHit[k] {
				v.unsupported("callsite clause %q matches no call in %s", c.Callee+" :: "+c.Expr, v.shortName())
			}
		}
	}
	if err := v.e.finalize(); err != nil {
		return v, err
	}
	return v, nil
}

func (v *fnVC) inputConst(name string, t types.Type) *T {
	so := v.e.sortOf(t)
	name = sanitize(name)
	name = strings.ReplaceAll(name, "_", "$")
	if so.Kind == KTuple {
		v.unsupported("tuple-typed parameter")
	}
	v.e.declConst(name, so)
	r := mk(name, so).withGo(t)
	v.assumeWellFormed(r, v.entry)
	return r
}

// assumeWellFormed: references read from memory or received as inputs are
// allocated (below the allocation counter) or nil; slices have 0<=len<=cap.
func (v *fnVC) assumeWellFormed(t *T, st *State) {
	g := v.reachNow()
	switch t.Sort.Kind {
	case KRef:
		v.e.assume(tImp(g, mk(sapp("and", sapp(">=", t.S, "0"), sapp("<", t.S, st.next().S)), sBool)))
	case KSlice:
		v.e.assume(tImp(g, mk(sapp("and",
			sapp(">=", sapp("sl_arr", t.S), "0"), sapp("<", sapp("sl_arr", t.S), st.next().S),
			sapp("bvsle", bvLit(0, 64), sapp("sl_len", t.S)),
			sapp("bvsle", sapp("sl_len", t.S), sapp("sl_cap", t.S)),
			sapp("bvsle", bvLit(0, 64), sapp("sl_off", t.S)),
			sapp("bvult", sapp("sl_cap", t.S), "#x4000000000000000"),
			sapp("bvult", sapp("sl_off", t.S), "#x4000000000000000"),
			sapp("=>", sapp("=", sapp("sl_arr", t.S), "0"), sapp("=", t.S, "nilSlice")),
		), sBool)))
	}
}

func (v *fnVC) reachNow() *T {
	if v.reachOverride != nil {
		return v.reachOverride
	}
	if v.curBlk == nil {
		return tTrue()
	}
	if r, ok := v.reach[v.curBlk.Index]; ok {
		return r
	}
	return tTrue()
}

func (v *fnVC) exFor(cur, old *State, extra map[string]*T) *Ex {
	x := &Ex{enc: v.e, w: v.w, pkg: v.fn.Pkg.Pkg, vars: map[string]*T{}, lets: map[string]string{}, cur: cur, old: old, clos: v.root().closures}
	for k, t := range v.params {
		x.vars[k] = t
		if strings.Contains(k, "$") {
			x.vars[strings.ReplaceAll(k, "$", "_S_")] = t
		}
	}
	if rng := v.mapRange(); rng != nil {
		x.visHeap = visitedHeap(rng)
		x.visKey = v.rangeKeySort(rng)
	}
	if v.ct != nil && v.ct.YieldN != "" && cur != nil {
		x.vars["yielded"] = cur.get(ghostYielded, sI64)
		x.vars["stopped"] = cur.get(ghostStopped, sBool)
	} else if cur != nil && v.hasYieldFn() {
		x.vars["stopped"] = cur.get(ghostStopped, sBool)
	}
	for k, t := range extra {
		x.vars[k] = t
	}
	if v.ct != nil {
		for _, l := range v.ct.Lets {
			x.lets[l.Name] = l.Expr
		}
	}
	return x
}

// ---- blocks ----------------------------------------------------------------------

func (v *fnVC) block(b *ssa.BasicBlock) {
	v.curBlk = b
	v.e.curBlk = b.Index
	if v.parent != nil {
		r := v
		for r.parent != nil {
			v.e.curBlk = r.parentBlk
			r = r.parent
		}
	}
	e := v.e
	var st *State
	isHeader := v.loops[b.Index] != nil
	// reach + merged state
	if b.Index == 0 && v.parent != nil {
		v.reach[0] = v.baseReach
		st = v.startState.clone()
	} else if b.Index == 0 {
		v.reach[0] = tTrue()
		st = v.entry.clone()
		if v.ct != nil && v.ct.YieldN != "" {
			v.producerInit(st)
		} else if v.hasYieldFn() {
			// iterator bodies whose yield callback has an assumed (fnparam) contract: `stopped`
			// records that the consumer's callback has returned false
			st.set(ghostStopped, tFalse())
		}
	} else {
		var edges []*T
		var preds []*ssa.BasicBlock
		for _, p := range b.Preds {
			if v.back[[2]int{p.Index, b.Index}] {
				continue
			}
			ec, ok := v.edge[[2]int{p.Index, b.Index}]
			if !ok {
				continue // unreachable predecessor
			}
			edges = append(edges, ec)
			preds = append(preds, p)
		}
		rname := fmt.Sprintf("R$%d", b.Index)
		if v.parent != nil {
			v.e.fresh++
			rname = fmt.Sprintf("R$c%d$%d", v.e.fresh, b.Index)
		}
		e.declConst(rname, sBool)
		e.assume(tEq(mk(rname, sBool), tOr(edges...)))
		v.reach[b.Index] = mk(rname, sBool)
		st = v.mergeStates(b, preds, edges)
	}
	if isHeader {
		st = v.loopHeader(b, st)
	}
	for _, in := range b.Instrs {
		v.curInstr = in
		v.instr(b, in, st)
	}
	v.exit[b.Index] = st
}

func (v *fnVC) mergeStates(b *ssa.BasicBlock, preds []*ssa.BasicBlock, edges []*T) *State {
	if len(preds) == 1 {
		return v.exit[preds[0].Index].clone()
	}
	st := v.e.newState()
	st.blk = b.Index
	for _, p := range preds {
		st.parents = append(st.parents, v.exit[p.Index])
	}
	st.conds = edges
	if len(preds) == 0 {
		st.parents, st.conds = nil, nil
		st.havocAll()
		return st
	}
	// eagerly merge the heaps already touched on some path (keeps assumptions early)
	names := map[string]*Sort{}
	for _, p := range preds {
		for k, t := range v.exit[p.Index].m {
			names[k] = t.Sort
		}
	}
	for _, name := range sortedKeys(names) {
		st.get(name, names[name])
	}
	return st
}

// ---- loops -----------------------------------------------------------------------

// heapsWritten over-approximates the heaps a loop body may write; nil = everything.
func (v *fnVC) loopHavocSet(li *loopInfo) (all bool) {
	for idx := range li.body {
		for _, in := range v.fn.Blocks[idx].Instrs {
			switch in.(type) {
			case ssa.CallInstruction:
				return true
			}
		}
	}
	return false
}

func (v *fnVC) loopHeader(b *ssa.BasicBlock, st *State) *State {
	li := v.loops[b.Index]
	e := v.e
	pre := st
	// entry obligations: invariant with phis bound to their entry-edge values
	entryVars := map[string]*T{}
	for _, phi := range li.phis {
		var alts []*T
		var conds []*T
		for i, p := range b.Preds {
			if v.back[[2]int{p.Index, b.Index}] {
				continue
			}
			if ec, ok := v.edge[[2]int{p.Index, b.Index}]; ok {
				alts = append(alts, v.val(phi.Edges[i]))
				conds = append(conds, ec)
			}
		}
		if len(alts) == 0 {
			continue
		}
		t := alts[len(alts)-1]
		for i := len(alts) - 2; i >= 0; i-- {
			t = tIte(conds[i], alts[i], t)
		}
		entryVars[phiName(phi)] = t.withGo(phi.Type())
		entryVars["%"+phi.Name()] = t
	}
	for i, c := range li.invs {
		x := v.exFor(pre, v.entry, nil)
		x.resolve = v.resolver(b, pre, entryVars)
		x.resolveAddr = v.addrResolver(b)
		g := v.tryBool(x, c, li.ordinal)
		if g == nil {
			continue
		}
		v.oblige("inv-entry", fmt.Sprintf("loop%d.inv%s:entry", li.ordinal, clauseTag(c, i)), v.propsOf(c), c.Expr, v.pos(b.Instrs[0].Pos()), v.reach[b.Index], g, pre)
	}
	// havoc everything the body may write (all heaps: bodies are small; calls havoc anyway)
	hst := pre.clone()
	var bodyIdx []int
	for idx := range li.body {
		bodyIdx = append(bodyIdx, idx)
	}
	sort.Ints(bodyIdx)
	for _, idx := range bodyIdx {
		for _, in := range v.fn.Blocks[idx].Instrs {
			v.havocWrites(in, hst, pre)
		}
	}
	li.state = hst
	li.hvars = map[string]*T{}
	for _, phi := range li.phis {
		t := e.freshConst(fmt.Sprintf("%s$%s", sanitize(phi.Name()), sanitize(phi.Comment)), e.sortOf(phi.Type()))
		t.GoT = phi.Type()
		v.vals[phi] = t
		v.assumeWellFormed(t, hst)
		li.hvars[phiName(phi)] = t
	}
	for _, c := range li.invs {
		x := v.exFor(hst, v.entry, nil)
		x.resolve = v.resolver(b, hst, nil)
		x.resolveAddr = v.addrResolver(b)
		if g := v.tryBool(x, c, li.ordinal); g != nil {
			e.assume(tImp(v.reach[b.Index], g))
		}
	}
	// termination measures: value at the loop head of an arbitrary iteration
	li.decrHead = nil
	for _, c := range li.decrs {
		x := v.exFor(hst, v.entry, nil)
		x.resolve = v.resolver(b, hst, nil)
		x.resolveAddr = v.addrResolver(b)
		li.decrHead = append(li.decrHead, e.define("variant", x.tr(parseSpecExpr(c.Expr), sI64)))
	}
	return hst
}

// tryBool translates a loop invariant; a clause that cannot be evaluated on this tree (it
// names a variable the code no longer has) is reported as undecided once and left out, so
// that the remaining clauses are still checked.
func (v *fnVC) tryBool(x *Ex, c *Clause, loop int) (g *T) {
	defer func() {
		if r := recover(); r != nil {
			se, ok := r.(specErr)
			if !ok {
				panic(r)
			}
			msg := fmt.Sprintf("loop %d invariant %q cannot be evaluated: %s", loop, c.Expr, se.msg)
			for _, u := range v.unsup {
				if u == msg {
					g = nil
					return
				}
			}
			v.unsup = append(v.unsup, msg)
			g = nil
		}
	}()
	return x.Bool(c.Expr)
}

// phiName is the source-level name of a loop-carried variable as specs write it
// (rangeint.iter -> rangeint_iter).
func phiName(phi *ssa.Phi) string { return strings.ReplaceAll(phi.Comment, ".", "_") }

func clauseTag(c *Clause, i int) string {
	if c.Name != "" {
		return "[" + c.Name + "]"
	}
	return fmt.Sprintf("#%d", i)
}

func (v *fnVC) propsOf(c *Clause) []string {
	if len(c.Props) > 0 {
		return c.Props
	}
	if v.ct != nil {
		return v.ct.Props
	}
	return nil
}

// backEdge: invariant preservation obligations at u -> header
func (v *fnVC) backEdge(u, h *ssa.BasicBlock, ec *T, st *State) {
	li := v.loops[h.Index]
	vars := map[string]*T{}
	for _, phi := range li.phis {
		for i, p := range h.Preds {
			if p == u {
				vars[phiName(phi)] = v.val(phi.Edges[i]).withGo(phi.Type())
				vars["%"+phi.Name()] = vars[phiName(phi)]
			}
		}
	}
	for i, c := range li.invs {
		x := v.exFor(st, v.entry, nil)
		x.resolve = v.resolver(h, st, vars)
		x.resolveAddr = v.addrResolver(h)
		g := v.tryBool(x, c, li.ordinal)
		if g == nil {
			continue
		}
		v.oblige("inv-preserved", fmt.Sprintf("loop%d.inv%s:preserved@b%d", li.ordinal, clauseTag(c, i), u.Index), v.propsOf(c), c.Expr, v.pos(h.Instrs[0].Pos()), ec, g, st)
	}
	// termination: the measure is non-negative at the head and strictly smaller at the back edge
	for i, c := range li.decrs {
		if i >= len(li.decrHead) {
			break
		}
		x := v.exFor(st, v.entry, nil)
		x.resolve = v.resolver(h, st, vars)
		x.resolveAddr = v.addrResolver(h)
		nv := x.tr(parseSpecExpr(c.Expr), sI64)
		g := mk(sapp("and", sapp("bvsge", li.decrHead[i].S, bvLit(0, 64)), sapp("bvslt", nv.S, li.decrHead[i].S)), sBool)
		v.oblige("decreases", fmt.Sprintf("loop%d.decreases%s@b%d", li.ordinal, clauseTag(c, i), u.Index), v.propsOf(c), "decreases "+c.Expr, v.pos(h.Instrs[0].Pos()), ec, g, st)
	}
}

// resolver maps a source-level variable name to its SSA value at block b.
func (v *fnVC) resolver(b *ssa.BasicBlock, st *State, over map[string]*T) func(string) *T {
	return func(name string) *T {
		if over != nil {
			if t, ok := over[name]; ok {
				return t
			}
		}
		// innermost enclosing loop header phis
		for _, li := range v.loops {
			if li.body[b.Index] && li.hvars != nil {
				if t, ok := li.hvars[name]; ok && (li.header == b || li.header.Dominates(b)) {
					_ = t
				}
			}
		}
		if li := v.loops[b.Index]; li != nil && li.hvars != nil {
			if t, ok := li.hvars[name]; ok {
				return t
			}
		}
		// phis of b
		for _, in := range b.Instrs {
			if phi, ok := in.(*ssa.Phi); ok && phiName(phi) == name {
				if t, ok := v.vals[phi]; ok {
					return t
				}
			}
		}
		// debug refs dominating b
		var best *dbgRef
		for i := range v.dbg[name] {
			d := &v.dbg[name][i]
			if d.blk == b || d.blk.Dominates(b) {
				if best == nil || best.blk.Dominates(d.blk) {
					best = d
				}
			}
		}
		if best != nil {
			t := v.val(best.x)
			if best.isAddr {
				if pt, ok := best.x.Type().Underlying().(*types.Pointer); ok {
					return v.load(best.x, pt.Elem(), st)
				}
			}
			return t
		}
		// a compiler-made cell (range-over-func jump flag `jump$N`) allocated in b or a dominating block: its address
		if strings.HasPrefix(name, "jump_S_") {
			for _, blk := range v.fn.Blocks {
				if blk == b || blk.Dominates(b) {
					for _, in := range blk.Instrs {
						if al, ok := in.(*ssa.Alloc); ok && strings.ReplaceAll(al.Comment, "$", "_S_") == name {
							if t, ok := v.vals[al]; ok {
								return t
							}
						}
					}
				}
			}
		}
		// any phi in a dominating block with that comment
		for _, blk := range v.fn.Blocks {
			if blk.Dominates(b) {
				for _, in := range blk.Instrs {
					if phi, ok := in.(*ssa.Phi); ok && phiName(phi) == name {
						if t, ok := v.vals[phi]; ok {
							return t
						}
					}
				}
			}
		}
		return nil
	}
}

// havocWrites replaces every heap an instruction may write by a fresh constant.
func (v *fnVC) havocWrites(in ssa.Instruction, st *State, pre *State) {
	hv := func(name string, so *Sort) {
		cur := st.get(name, so)
		if pre != nil {
			if p := pre.get(name, so); p.S != cur.S {
				return // already havocked
			}
		}
		v.e.fresh++
		sym := fmt.Sprintf("Hl$%s!%d", name, v.e.fresh)
		v.e.declConst(sym, so)
		st.set(name, mk(sym, so))
	}
	switch i := in.(type) {
	case *ssa.Store:
		v.havocAddr(i.Addr, hv)
	case *ssa.MapUpdate:
		mt := i.Map.Type().Underlying().(*types.Map)
		v.havocMap(mt, hv)
	case *ssa.Alloc, *ssa.MakeSlice, *ssa.MakeMap, *ssa.MakeChan, *ssa.MakeClosure, *ssa.MakeInterface:
		if pre == nil || pre.next().S == st.next().S {
			v.havocNext(st)
		}
		switch a := in.(type) {
		case *ssa.Alloc:
			v.havocType(a.Type().Underlying().(*types.Pointer).Elem(), hv)
		case *ssa.MakeMap:
			v.havocMap(a.Type().Underlying().(*types.Map), hv)
		case *ssa.MakeSlice:
			es := v.e.sortOf(a.Type().Underlying().(*types.Slice).Elem())
			hv(elemHeap(es), arrSort(sRef, arrSort(sI64, es)))
		}
	case ssa.CallInstruction:
		v.havocCallWrites(i, st)
	case *ssa.Next:
		hv("iter$"+in.(*ssa.Next).Iter.Name(), sInt)
		if rng, ok := i.Iter.(*ssa.Range); ok {
			hv(visitedHeap(rng), arrSort(v.rangeKeySort(rng), sBool))
		}
	}
}

// hasYieldFn: the function is an iterator body - it has a parameter or free variable called
// yield with an assumed (fnparam) contract.
func (v *fnVC) hasYieldFn() bool {
	if v.fn == nil {
		return false
	}
	_, ok := v.w.specs.Contracts["fnparam:"+v.fn.RelString(nil)+".yield"]
	return ok
}

// visitedHeap names the ghost set of keys a map range has already yielded.
func visitedHeap(rng *ssa.Range) string { return "RV$" + sanitize(rng.Name()) }

// mapRange returns the function's range instruction over a map or a string if it has exactly one
// (the ghost set visited(k) of an invariant refers to it: keys of the map, byte indices of the string).
func (v *fnVC) mapRange() *ssa.Range {
	var found *ssa.Range
	n := 0
	for _, b := range v.fn.Blocks {
		for _, in := range b.Instrs {
			if r, ok := in.(*ssa.Range); ok {
				found = r
				n++
			}
		}
	}
	if n == 1 {
		return found
	}
	return nil
}

// rangeKeySort: sort of the elements of the visited set of a range (map keys / string byte indices).
func (v *fnVC) rangeKeySort(rng *ssa.Range) *Sort {
	if mt, ok := rng.X.Type().Underlying().(*types.Map); ok {
		return v.e.sortOf(mt.Key())
	}
	return sI64
}

func (v *fnVC) havocType(t types.Type, hv func(string, *Sort)) {
	so := v.e.sortOf(t)
	if so.Kind == KStruct {
		st := structOf(t)
		owner := ownerName(t)
		for i := 0; i < st.NumFields(); i++ {
			hv(fieldHeap(owner, st.Field(i).Name()), arrSort(sRef, v.e.sortOf(st.Field(i).Type())))
		}
		return
	}
	if at, ok := t.Underlying().(*types.Array); ok {
		es := v.e.sortOf(at.Elem())
		hv(elemHeap(es), arrSort(sRef, arrSort(sI64, es)))
		return
	}
	hv(cellHeap(so), arrSort(sRef, so))
}

func (v *fnVC) havocMap(mt *types.Map, hv func(string, *Sort)) {
	ks, vs := v.e.sortOf(mt.Key()), v.e.sortOf(mt.Elem())
	hv(mapHeap(ks, vs, "has"), arrSort(sRef, arrSort(ks, sBool)))
	hv(mapHeap(ks, vs, "val"), arrSort(sRef, arrSort(ks, vs)))
	hv(mapHeap(ks, vs, "cnt"), arrSort(sRef, sI64))
}

func (v *fnVC) havocAddr(a ssa.Value, hv func(string, *Sort)) {
	pt, ok := a.Type().Underlying().(*types.Pointer)
	if !ok {
		return
	}
	switch x := a.(type) {
	case *ssa.FieldAddr:
		st := structOf(x.X.Type())
		f := st.Field(x.Field)
		owner := ownerName(x.X.Type().Underlying().(*types.Pointer).Elem())
		fs := v.e.sortOf(f.Type())
		if fs.Kind == KStruct {
			// whole-struct store into a nested field
			hv(fieldHeap(owner, f.Name()), arrSort(sRef, fs))
			return
		}
		hv(fieldHeap(owner, f.Name()), arrSort(sRef, fs))
	case *ssa.IndexAddr:
		es := v.e.sortOf(pt.Elem())
		hv(elemHeap(es), arrSort(sRef, arrSort(sI64, es)))
	default:
		v.havocType(pt.Elem(), hv)
	}
}


// modelTerms lists the terms whose model values are requested for a failed obligation.
func (v *fnVC) modelTerms() []string {
	var out []string
	for _, name := range sortedKeys(v.params) {
		t := v.params[name]
		switch t.Sort.Kind {
		case KBool, KBV, KInt, KRef:
			out = append(out, t.S)
		case KStr:
			out = append(out, sapp("slen", t.S))
			for i := 0; i < 24; i++ {
				out = append(out, sapp("sat", t.S, bvLit(int64(i), 64)))
			}
			tail := sapp("ssub", t.S, bvLit(1, 64), sapp("slen", t.S))
			for _, fn := range []string{"spec$isDigits", "spec$dec64", "spec$decOverflow"} {
				if v.e.declSeen[fn] {
					out = append(out, sapp(fn, t.S), sapp(fn, tail))
				}
			}
		}
	}
	return out
}

// computeOrdinals numbers returns, and call sites per callee, in block/instruction order.
func (v *fnVC) computeOrdinals() {
	v.ordinal = map[ssa.Instruction]int{}
	v.iterOrd = map[ssa.Instruction]int{}
	v.instrTag = map[ssa.Instruction]string{}
	count := map[string]int{}
	for _, b := range v.fn.Blocks {
		for _, in := range b.Instrs {
			tn := strings.TrimPrefix(fmt.Sprintf("%T", in), "*ssa.")
			v.instrTag[in] = fmt.Sprintf("%s%d", tn, count["T:"+tn])
			count["T:"+tn]++
			key := ""
			switch i := in.(type) {
			case *ssa.Return:
				key = "ret"
			case ssa.CallInstruction:
				c := i.Common()
				switch {
				case c.IsInvoke():
					key = "call:" + ifaceKey(c.Value.Type(), c.Method.Name())
				default:
					switch f := c.Value.(type) {
					case *ssa.Function:
						key = "call:" + funcKey(f)
					case *ssa.MakeClosure:
						key = "call:" + funcKey(f.Fn.(*ssa.Function))
					case *ssa.Builtin:
						key = ""
					default:
						key = "call:fnvalue"
					}
				}
				if _, isGo := in.(*ssa.Go); isGo && key != "" {
					key = "go:" + key
				}
			}
			if key != "" {
				v.ordinal[in] = count[key]
				count[key]++
			}
			if ci, ok := in.(ssa.CallInstruction); ok && yieldClosureArg(ci.Common()) != nil {
				v.iterOrd[in] = count["iter"]
				count["iter"]++
			}
		}
	}
}

// havocCallWrites forgets, at the granularity of whole heaps, everything a call
// may write according to the callee's contract (no contract: everything).
func (v *fnVC) havocCallWrites(in ssa.CallInstruction, st *State) {
	c := in.Common()
	var ct *Contract
	var names []string
	var ptypes []types.Type
	switch {
	case c.IsInvoke():
		ct = v.w.specs.Contracts[ifaceKey(c.Value.Type(), c.Method.Name())]
		names = append(names, "recv")
		ptypes = append(ptypes, c.Value.Type())
		msig := c.Method.Type().(*types.Signature)
		for k := 0; k < msig.Params().Len(); k++ {
			names = append(names, paramName(msig.Params().At(k), k))
			ptypes = append(ptypes, msig.Params().At(k).Type())
		}
	default:
		var fn *ssa.Function
		switch f := c.Value.(type) {
		case *ssa.Builtin:
			switch f.Name() {
			case "len", "cap", "min", "max", "print", "println", "close":
				return
			case "append", "copy":
				if sl, ok := c.Args[0].Type().Underlying().(*types.Slice); ok {
					es := v.e.sortOf(sl.Elem())
					st.set(elemHeap(es), v.e.freshConst("Hl$"+elemHeap(es), arrSort(sRef, arrSort(sI64, es))))
					v.havocNext(st)
					return
				}
			case "delete":
				if mt, ok := c.Args[0].Type().Underlying().(*types.Map); ok {
					v.havocMap(mt, func(name string, so *Sort) { st.set(name, v.e.freshConst("Hl$"+name, so)) })
					return
				}
			}
			st.havocAll()
			return
		case *ssa.Function:
			fn = f
		case *ssa.MakeClosure:
			fn = f.Fn.(*ssa.Function)
		}
		if fn == nil {
			// call through a function value: an iterator call with a yield closure writes what the closure writes
			if yc := yieldClosureArg(c); yc != nil {
				v.havocFuncBody(yc.Fn.(*ssa.Function), st)
				return
			}
			if v.isYieldParam(c.Value) {
				return
			}
			cands := v.candidates(c.Signature())
			if len(cands) == 0 {
				st.havocAll()
				return
			}
			for _, cd := range cands {
				cct := v.w.specs.Contracts[funcKey(cd.fn)]
				if cct == nil || !cct.HasAsg || containsStr(cct.Assigns, "*") {
					st.havocAll()
					return
				}
				var nm []string
				var pt []types.Type
				for _, p := range cd.fn.FreeVars {
					nm = append(nm, p.Name())
					pt = append(pt, p.Type())
				}
				for _, p := range cd.fn.Params {
					nm = append(nm, p.Name())
					pt = append(pt, p.Type())
				}
				v.havocByContract(cct, nm, pt, in, st)
			}
			return
		}
		ct = v.w.specs.Contracts[funcKey(fn)]
		if len(fn.Params) > 0 || len(fn.FreeVars) > 0 {
			for _, p := range fn.FreeVars {
				names = append(names, p.Name())
				ptypes = append(ptypes, p.Type())
			}
			for _, p := range fn.Params {
				names = append(names, p.Name())
				ptypes = append(ptypes, p.Type())
			}
		} else {
			sig := c.Signature()
			if r := sig.Recv(); r != nil {
				names = append(names, "recv")
				ptypes = append(ptypes, r.Type())
			}
			for k := 0; k < sig.Params().Len(); k++ {
				names = append(names, paramName(sig.Params().At(k), k))
				ptypes = append(ptypes, sig.Params().At(k).Type())
			}
		}
	}
	if ct == nil || !ct.HasAsg || containsStr(ct.Assigns, "*") {
		st.havocAll()
		return
	}
	if len(ct.ParamNm) > 0 {
		names = ct.ParamNm
	}
	v.havocByContract(ct, names, ptypes, in, st)
}

// havocByContract evaluates the contract's assigns locations on dummy arguments
// in a scratch state and havocs (whole) every heap they touch.
func (v *fnVC) havocByContract(ct *Contract, names []string, ptypes []types.Type, in ssa.CallInstruction, st *State) {
	scratch := v.e.newState()
	scratch.havocAll()
	x := &Ex{enc: v.e, w: v.w, pkg: v.fn.Pkg.Pkg, vars: map[string]*T{}, lets: map[string]string{}, cur: scratch, old: scratch}
	for k, n := range names {
		if k < len(ptypes) {
			x.vars[n] = v.e.freshConst("dummy", v.e.sortOf(ptypes[k])).withGo(ptypes[k])
		}
	}
	for _, l := range ct.Lets {
		x.lets[l.Name] = l.Expr
	}
	saveCt := v.ct
	v.ct = nil // no frame obligations from the scratch evaluation
	func() {
		defer func() {
			if r := recover(); r != nil {
				if _, ok := r.(specErr); ok {
					st.havocAll()
					scratch.m = map[string]*T{}
					return
				}
				panic(r)
			}
		}()
		for _, loc := range ct.Assigns {
			v.havocLoc(x, loc, scratch, in.Pos())
		}
	}()
	v.ct = saveCt
	for _, name := range sortedKeys(scratch.m) {
		st.set(name, v.e.freshConst("Hl$"+name, scratch.m[name].Sort))
	}
	v.havocNext(st)
}

func yieldClosureArg(c *ssa.CallCommon) *ssa.MakeClosure {
	for _, a := range c.Args {
		if mc, ok := a.(*ssa.MakeClosure); ok {
			if f, ok := mc.Fn.(*ssa.Function); ok && f.Synthetic == "range-over-func yield" {
				return mc
			}
		}
	}
	return nil
}

// havocFuncBody forgets every heap the body of fn (a yield closure) may write.
func (v *fnVC) havocFuncBody(fn *ssa.Function, st *State) {
	for _, b := range fn.Blocks {
		for _, in := range b.Instrs {
			v.havocWrites(in, st, nil)
		}
	}
	for _, a := range fn.AnonFuncs {
		v.havocFuncBody(a, st)
	}
}

// ancestors: blocks from which block idx is reachable in the back-edge-cut CFG (idx included).
func (v *fnVC) ancestors(idx int) map[int]bool {
	if v.ancCache == nil {
		v.ancCache = map[int]map[int]bool{}
	}
	if a, ok := v.ancCache[idx]; ok {
		return a
	}
	a := map[int]bool{idx: true}
	stack := []int{idx}
	for len(stack) > 0 {
		n := stack[len(stack)-1]
		stack = stack[:len(stack)-1]
		for _, p := range v.fn.Blocks[n].Preds {
			if v.back[[2]int{p.Index, n}] {
				continue
			}
			if !a[p.Index] {
				a[p.Index] = true
				stack = append(stack, p.Index)
			}
		}
	}
	v.ancCache[idx] = a
	return a
}

// havocNext: the allocation counter becomes unknown but never decreases.
func (v *fnVC) havocNext(st *State) {
	old := st.next()
	n := v.e.freshConst("Hl$next", sInt)
	v.e.assume(mk(sapp(">=", n.S, old.S), sBool))
	st.set(allocHeap, n)
}

// addrResolver maps the name of an address-taken local variable to its address.
func (v *fnVC) addrResolver(b *ssa.BasicBlock) func(string) *T {
	return func(name string) *T {
		for i := range v.dbg[name] {
			d := &v.dbg[name][i]
			if d.isAddr && (d.blk == b || d.blk.Dominates(b)) {
				return v.val(d.x)
			}
		}
		for _, blk := range v.fn.Blocks {
			for _, in := range blk.Instrs {
				if al, ok := in.(*ssa.Alloc); ok && al.Comment == name {
					if t, ok := v.vals[al]; ok {
						return t
					}
				}
			}
		}
		return nil
	}
}
