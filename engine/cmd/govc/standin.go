package main

// Bounded stand-ins: for functions that live in dependencies and cannot be brought under
// contract (httputil.DumpResponse / http.ReadResponse), a bounded enumeration run against the
// REAL code stands in. It is labelled bounded in the evidence (coverage.bounded_standins) and
// is never part of `obligations` / `discharged`.

import (
	"bytes"
	"encoding/json"
	"fmt"
	"os"
	"os/exec"
	"path/filepath"
	"strconv"
	"strings"
	"time"
)

type standinInfo struct {
	Name     string   `json:"name"`
	Label    string   `json:"label"`
	Stands   string   `json:"stands_in_for"`
	Bound    string   `json:"bound"`
	Cases    int      `json:"cases"`
	Failures int      `json:"failures"`
	First    []string `json:"first_failing_cases,omitempty"`
	Error    string   `json:"error,omitempty"`
	Seconds  float64  `json:"seconds"`
}

var standinTable = map[string][]struct{ name, file, pkgdir, test, stands, boundQuick, boundThorough string }{
	"C03": {{
		name: "url-key-vs-rfc3986", file: "c03_urlkey_test.go.txt", pkgdir: "internal", test: "TestGovcStandinC03",
		stands:        "makeURLKey over what net/url delivers (url.Parse, ResolveReference, EscapedPath - assumed shape contracts only): two URLs share a key exactly when an independent RFC 3986 6.2.2-6.2.3 reference normaliser (no net/url) gives them the same normal form",
		boundQuick:    "3 scheme spellings x 2 userinfo x 13 hosts (case, IPv4, IPv6 literals, non-ASCII and invalid UTF-8 bytes) x 5 ports x 29 paths (dot segments, escapes of unreserved / reserved / non-ASCII bytes, stray %) x 17 queries, every URL url.Parse accepts (172,380)",
		boundThorough: "3 scheme spellings x 3 userinfo x 15 hosts x 6 ports x 29 paths x 17 queries x 2 fragments, every URL url.Parse accepts (716,040)",
	}},
	"C19": {{
		name: "index-json-round-trip", file: "c19_refs_roundtrip_test.go.txt", pkgdir: "internal", test: "TestGovcStandinC19",
		stands:        "json.Unmarshal(json.Marshal(index)) gives back exactly the same references (ResponseRef.UnmarshalJSON and encoding/json are outside the contracts; MarshalJSON is under contract)",
		boundQuick:    "12 awkward strings (empty, ASCII, quotes/control bytes, valid and invalid UTF-8, text that looks like the escape marker) for ID x Vary x 4 shapes of the resolved map (nil, empty, one, two entries) x 3 timestamps (576 indexes of two references)",
		boundThorough: "18 such strings x 18 x 4 shapes x 3 timestamps (1296 indexes of two references)",
	}},
	"C04": {{
		name: "header-value-normalisation", file: "c04_normalize_test.go.txt", pkgdir: "internal", test: "TestGovcStandinC04",
		stands:        "normalizeHeaderValue identifies two values of a nominated request header only up to whitespace, list order and ASCII case (never two values that differ otherwise, e.g. in a byte that is not valid UTF-8), and is idempotent; for the weighted fields (Accept, Accept-Language, Accept-Encoding, Accept-Charset, TE) it identifies two lists only if they mean the same under an independent reading of RFC 9110 12.4.2 (members with weight zero in any spelling dropped, weight 1 implicit, q/Q and trailing zeros, parameter order, the best-ranked of several members with one name) - a member with a small non-zero weight is never forgotten",
		boundQuick:    "8 fields (one per normalisation class) x every value of length <= 4 over {a, A, b, ',', SP, HTAB, '*', 0xff, 0xfe} (7381 values), plus 5 weighted fields x every list of <= 2 members out of 3 names x 16 parameter/weight spellings (2353 lists): 70,813 cases",
		boundThorough: "8 fields (one per normalisation class) x every value of length <= 6 over {a, A, b, ',', SP, HTAB, '*', 0xff, 0xfe} (597871 values), plus 5 weighted fields x every list of <= 3 members out of 3 names x 16 parameter/weight spellings (112,945 lists)",
	}, {
		name: "index-json-round-trip", file: "c19_refs_roundtrip_test.go.txt", pkgdir: "internal", test: "TestGovcStandinC19",
		stands:        "json.Unmarshal(json.Marshal(index)) gives back exactly the same references (ResponseRef.UnmarshalJSON and encoding/json are outside the contracts; MarshalJSON is under contract)",
		boundQuick:    "12 awkward strings (empty, ASCII, quotes/control bytes, valid and invalid UTF-8, text that looks like the escape marker) for ID x Vary x 4 shapes of the resolved map (nil, empty, one, two entries) x 3 timestamps (576 indexes of two references)",
		boundThorough: "18 such strings x 18 x 4 shapes x 3 timestamps (1296 indexes of two references)",
	}, {
		name: "variant-id-distinguishes-resolved-values", file: "c09_varykey_test.go.txt", pkgdir: "internal", test: "TestGovcStandinC09VaryKey",
		stands:        "makeVaryKey / makeVaryHash (hash/fnv, named but not specified by the contracts): two different maps of resolved selecting values get different response IDs unless the concatenation of their sorted names and values coincides (the one ambiguity the collision guard exists for); the ID does not depend on map iteration order and starts with the URL key",
		boundQuick:    "every map over 4 field names (absent or one of 5 values incl. the empty one): 1296 maps",
		boundThorough: "every map over 5 field names (absent or one of 7 values): 32768 maps",
	}},
	"C05": {{
		name: "entry-round-trip", file: "c05_roundtrip_test.go.txt", pkgdir: "internal", test: "TestGovcStandinC05",
		stands:        "Response.MarshalBinary (httputil.DumpResponse) followed by ParseResponse (http.ReadResponse) reproduces status, every header field value, the exact body bytes, the entry's ID (of any length) and both timestamps; the response handed to MarshalBinary still delivers its body",
		boundQuick:    "5 statuses x 3 protocol versions x 3 framings x 4 body contents x 6 body sizes (0..4097) x 3 header shapes; ID lengths 23..20,020 bytes and timestamps with nanoseconds in five zones vary along",
		boundThorough: "5 statuses x 3 protocol versions x 3 framings x 4 body contents x 9 body sizes (0..1 MiB) x 3 header shapes; ID lengths 23..20,020 bytes and timestamps with nanoseconds in five zones vary along",
	}},
	"C09": {{
		name: "entry-round-trip", file: "c05_roundtrip_test.go.txt", pkgdir: "internal", test: "TestGovcStandinC05",
		stands:        "Response.MarshalBinary (httputil.DumpResponse) followed by ParseResponse (http.ReadResponse) reproduces status, every header field value, the exact body bytes, the entry's ID (of any length) and both timestamps; the response handed to MarshalBinary still delivers its body",
		boundQuick:    "5 statuses x 3 protocol versions x 3 framings x 4 body contents x 6 body sizes (0..4097) x 3 header shapes; ID lengths 23..20,020 bytes and timestamps with nanoseconds in five zones vary along",
		boundThorough: "5 statuses x 3 protocol versions x 3 framings x 4 body contents x 9 body sizes (0..1 MiB) x 3 header shapes; ID lengths 23..20,020 bytes and timestamps with nanoseconds in five zones vary along",
	}, {
		name: "index-json-round-trip", file: "c19_refs_roundtrip_test.go.txt", pkgdir: "internal", test: "TestGovcStandinC19",
		stands:        "json.Unmarshal(json.Marshal(index)) gives back exactly the same references (ResponseRef.UnmarshalJSON and encoding/json are outside the contracts; MarshalJSON is under contract)",
		boundQuick:    "12 awkward strings (empty, ASCII, quotes/control bytes, valid and invalid UTF-8, text that looks like the escape marker) for ID x Vary x 4 shapes of the resolved map (nil, empty, one, two entries) x 3 timestamps (576 indexes of two references)",
		boundThorough: "18 such strings x 18 x 4 shapes x 3 timestamps (1296 indexes of two references)",
	}, {
		name: "variant-id-distinguishes-resolved-values", file: "c09_varykey_test.go.txt", pkgdir: "internal", test: "TestGovcStandinC09VaryKey",
		stands:        "makeVaryKey / makeVaryHash (hash/fnv, named but not specified by the contracts): two different maps of resolved selecting values get different response IDs unless the concatenation of their sorted names and values coincides (the one ambiguity the collision guard exists for); the ID does not depend on map iteration order and starts with the URL key",
		boundQuick:    "every map over 4 field names (absent or one of 5 values incl. the empty one): 1296 maps",
		boundThorough: "every map over 5 field names (absent or one of 7 values): 32768 maps",
	}},
}

func runStandins(o checkOpts) []standinInfo {
	var out []standinInfo
	for _, sd := range standinTable[o.prop] {
		si := standinInfo{Name: sd.name, Label: "BOUNDED (a stand-in, not a proof)", Stands: sd.stands, Bound: sd.boundQuick}
		bound := "small"
		if o.tier == "thorough" {
			si.Bound, bound = sd.boundThorough, "large"
		}
		start := time.Now()
		src, err := os.ReadFile(filepath.Join(o.verif, "standin", sd.file))
		if err != nil {
			si.Error = err.Error()
			out = append(out, si)
			continue
		}
		dir, _ := os.MkdirTemp("", "govc-standin-")
		tf := filepath.Join(dir, "zz_govc_standin_test.go")
		os.WriteFile(tf, src, 0o644)
		pkgDir := filepath.Join(o.repo, sd.pkgdir)
		ov, _ := json.Marshal(map[string]any{"Replace": map[string]string{filepath.Join(pkgDir, "zz_govc_standin_test.go"): tf}})
		ovf := filepath.Join(dir, "ov.json")
		os.WriteFile(ovf, ov, 0o644)
		cmd := exec.Command("/usr/bin/go", "test", "-overlay", ovf, "-vet=off", "-count=1", "-v", "-timeout", "300s", "-run", "^"+sd.test+"$", ".")
		cmd.Dir = pkgDir
		var env []string
		for _, kv := range os.Environ() {
			if strings.HasPrefix(kv, "GOTOOLCHAIN=") || strings.HasPrefix(kv, "GOSUMDB=") || strings.HasPrefix(kv, "GOFLAGS=") || strings.HasPrefix(kv, "PATH=") {
				continue
			}
			env = append(env, kv)
		}
		env = append(env, "GOFLAGS=-mod=mod", "GOPROXY=off", "PATH=/usr/bin:/bin:/usr/local/bin:/usr/local/go/bin", "GOVC_STANDIN_BOUND="+bound)
		cmd.Env = env
		var buf bytes.Buffer
		cmd.Stdout, cmd.Stderr = &buf, &buf
		runErr := cmd.Run()
		os.RemoveAll(dir)
		seen := false
		for _, l := range strings.Split(buf.String(), "\n") {
			if strings.HasPrefix(l, "GOVC-STANDIN cases=") {
				seen = true
				for _, f := range strings.Fields(l)[1:] {
					k, v, _ := strings.Cut(f, "=")
					n, _ := strconv.Atoi(v)
					if k == "cases" {
						si.Cases = n
					} else if k == "failures" {
						si.Failures = n
					}
				}
			} else if strings.HasPrefix(l, "GOVC-STANDIN-FAIL ") {
				si.First = append(si.First, strings.TrimPrefix(l, "GOVC-STANDIN-FAIL "))
			}
		}
		if !seen {
			si.Error = fmt.Sprintf("no result line (%v): %s", runErr, truncate(buf.String(), 600))
		}
		si.Seconds = round3(time.Since(start).Seconds())
		out = append(out, si)
	}
	return out
}
