package main

// Calls (modular: by contract), builtins, returns, go statements.

import (
	"fmt"
	"go/token"
	"go/types"
	"strings"

	"golang.org/x/tools/go/ssa"
)

type calleeInfo struct {
	key     string
	ct      *Contract
	names   []string // names of the arguments, receiver first
	sig     *types.Signature
	display string
	fn      *ssa.Function
}

func shortKey(k string) string {
	k = strings.ReplaceAll(k, "github.com/bartventer/httpcache/", "")
	k = strings.ReplaceAll(k, "github.com/bartventer/", "")
	return k
}

func ifaceKey(t types.Type, method string) string {
	t = types.Unalias(t)
	if n, ok := t.(*types.Named); ok && n.Obj().Pkg() != nil {
		return "iface:" + n.Obj().Pkg().Path() + "." + n.Obj().Name() + "." + method
	}
	if n, ok := t.(*types.Named); ok {
		return "iface:" + n.Obj().Name() + "." + method // error
	}
	return "iface:?." + method
}

func (v *fnVC) call(in ssa.CallInstruction, st *State) {
	e := v.e
	c := in.Common()
	val, _ := in.(ssa.Value)
	setResult := func(t *T) {
		if val != nil {
			if t.Sort.Kind == KTuple {
				v.vals[val] = t
			} else {
				v.setVal(val, t)
			}
		}
	}
	var args []*T
	var ci calleeInfo
	ci.sig = c.Signature()
	if c.IsInvoke() {
		recv := v.val(c.Value)
		v.safetyOb("nil-interface-call", in.Pos(), tNot(tEq(recv, mk("nilIface", sIface))))
		ci.key = ifaceKey(c.Value.Type(), c.Method.Name())
		ci.ct = v.w.specs.Contracts[ci.key]
		ci.display = shortKey(strings.TrimPrefix(ci.key, "iface:"))
		args = append(args, recv)
		ci.names = append(ci.names, "recv")
		msig := c.Method.Type().(*types.Signature)
		for k := 0; k < msig.Params().Len(); k++ {
			ci.names = append(ci.names, paramName(msig.Params().At(k), k))
		}
		ci.sig = msig
	} else {
		switch callee := c.Value.(type) {
		case *ssa.Builtin:
			r := v.builtin(in, callee, st)
			if r != nil {
				setResult(r)
			}
			return
		case *ssa.Function:
			ci.fn = callee
		case *ssa.MakeClosure:
			ci.fn = callee.Fn.(*ssa.Function)
			for _, b := range callee.Bindings {
				args = append(args, v.val(b))
			}
			for _, fv := range ci.fn.FreeVars {
				ci.names = append(ci.names, fv.Name())
			}
		default:
			fv := v.val(c.Value)
			v.safetyOb("nil-func-call", in.Pos(), tNot(tEq(fv, mk("nilFn", sFn))))
			if yc := yieldClosureArg(c); yc != nil {
				// range-over-func: iterator rule (invariants) or, without invariants, the frame only
				v.iterCall(in, fv, yc, st)
				return
			}
			if v.isYieldParam(c.Value) {
				setResult(v.yieldCall(in, st))
				return
			}
			if res, ok := v.dispatchCall(in, fv, st); ok {
				if res != nil {
					setResult(res)
				}
				return
			}
			// a function-typed free variable / parameter of this very function with an assumed (fnparam) contract
			fvName := ""
			switch cv := c.Value.(type) {
			case *ssa.UnOp:
				if f, ok := cv.X.(*ssa.FreeVar); ok {
					fvName = f.Name()
				}
			case *ssa.FreeVar:
				fvName = cv.Name()
			case *ssa.Parameter:
				fvName = cv.Name()
			}
			if fvName != "" {
				if pct := v.w.specs.Contracts["fnparam:"+v.fn.RelString(nil)+"."+fvName]; pct != nil {
					ci.key, ci.ct, ci.display = pct.Key, pct, "function value "+fvName
					ci.names = nil
					for k := 0; k < c.Signature().Params().Len(); k++ {
						ci.names = append(ci.names, paramName(c.Signature().Params().At(k), k))
					}
					if len(pct.ParamNm) > 0 {
						ci.names = pct.ParamNm
					}
					for _, a := range c.Args {
						args = append(args, v.val(a))
					}
					if res := v.applyCall(in, ci, args, st); res != nil {
						setResult(res)
					}
					return
				}
			}
			// a function-typed parameter of the enclosing function with an assumed (fnparam) contract
			rv := v.root()
			for _, p := range rv.fn.Params {
				psig, ok := p.Type().Underlying().(*types.Signature)
				if !ok || !types.Identical(psig, c.Signature()) {
					continue
				}
				if pct := v.w.specs.Contracts["fnparam:"+rv.fn.RelString(nil)+"."+p.Name()]; pct != nil {
					v.safetyOb("unknown-func-value", in.Pos(), tEq(fv, rv.vals[p]))
					ci.key, ci.ct, ci.display = pct.Key, pct, "parameter "+p.Name()
					ci.names = nil
					for k := 0; k < psig.Params().Len(); k++ {
						ci.names = append(ci.names, paramName(psig.Params().At(k), k))
					}
					for _, a := range c.Args {
						args = append(args, v.val(a))
					}
					if len(pct.ParamNm) > 0 {
						ci.names = pct.ParamNm
					}
					if res := v.applyCall(in, ci, args, st); res != nil {
						setResult(res)
					}
					return
				}
			}
			ci.display = "func value " + c.Value.Name()
			// a parameter of function type may carry a contract:  `iface param:<func>.<name>`
			ci.key = "fnparam:" + v.fn.RelString(nil) + "." + c.Value.Name()
			ci.ct = v.w.specs.Contracts[ci.key]
			for k := 0; k < ci.sig.Params().Len(); k++ {
				ci.names = append(ci.names, paramName(ci.sig.Params().At(k), k))
			}
		}
		if ci.fn != nil {
			ci.key = funcKey(ci.fn)
			ci.ct = v.w.specs.Contracts[ci.key]
			ci.display = shortKey(ci.key)
			var pnames []string
			if len(ci.fn.Params) > 0 {
				for _, p := range ci.fn.Params {
					pnames = append(pnames, p.Name())
				}
			} else {
				// external function: names from the signature
				if r := ci.sig.Recv(); r != nil {
					pnames = append(pnames, "recv")
				}
				for k := 0; k < ci.sig.Params().Len(); k++ {
					pnames = append(pnames, paramName(ci.sig.Params().At(k), k))
				}
			}
			// closure bindings precede params
			if mc, ok := c.Value.(*ssa.MakeClosure); ok {
				_ = mc
				ci.names = append(ci.names, pnames...)
			} else {
				ci.names = pnames
			}
		}
	}
	for _, a := range c.Args {
		args = append(args, v.val(a))
	}
	if ci.ct != nil && len(ci.ct.ParamNm) > 0 {
		ci.names = ci.ct.ParamNm
	}
	res := v.applyCall(in, ci, args, st)
	if res != nil {
		setResult(res)
	} else if val != nil && ci.sig.Results().Len() > 0 {
		setResult(e.freshConst("res", e.sortOf(val.Type())))
	}
}

func paramName(p *types.Var, k int) string {
	if p.Name() == "" || p.Name() == "_" {
		return fmt.Sprintf("arg%d", k)
	}
	return p.Name()
}

// applyCall: assert pre; havoc assigns; assume post.
func (v *fnVC) applyCall(in ssa.Instruction, ci calleeInfo, args []*T, st *State) *T {
	e := v.e
	R := v.reachNow()
	// result constants
	var results []*T
	rt := ci.sig.Results()
	for k := 0; k < rt.Len(); k++ {
		t := e.freshConst(fmt.Sprintf("r$%s", sanitize(lastSeg(ci.display))), e.sortOf(rt.At(k).Type()))
		t.GoT = rt.At(k).Type()
		results = append(results, t)
	}
	pack := func() *T {
		switch len(results) {
		case 0:
			return nil
		case 1:
			return results[0]
		}
		so := &Sort{Kind: KTuple}
		for _, r := range results {
			so.Elems = append(so.Elems, r.Sort)
		}
		return &T{Sort: so, Tuple: results}
	}
	if ci.ct == nil && ci.fn != nil && pureByDefault(ci.fn) {
		// a package-level function of a value-only standard-library package (strings, strconv,
		// unicode, fmt, errors, path, math ...) without an assumed contract: it writes nothing the
		// caller can see; its result is unconstrained
		for _, r := range results {
			v.assumeWellFormed(r, st)
		}
		v.e.uses["standard-library value functions without a written contract (strings, strconv, unicode, utf8, fmt, errors, path, filepath, math, cmp) are treated as pure with an unconstrained result"] = true
		v.notes = append(v.notes, fmt.Sprintf("call to %s at %s has no contract: treated as pure, result unconstrained", ci.display, v.pos(in.Pos())))
		return pack()
	}
	if ci.ct == nil {
		// no contract: nothing is known afterwards
		st.havocAll()
		for _, r := range results {
			v.assumeWellFormed(r, st)
		}
		v.notes = append(v.notes, fmt.Sprintf("call to %s at %s has no contract: every heap is havocked, result unconstrained", ci.display, v.pos(in.Pos())))
		return pack()
	}
	ct := ci.ct
	if ct.Kind != "func" || ct.Trusted {
		e.uses[fmt.Sprintf("assumed contract: %s %s", ct.Kind, shortKey(strings.TrimPrefix(ct.Key, "iface:")))] = true
	}
	vars := map[string]*T{}
	for k, a := range args {
		if k < len(ci.names) {
			vars[ci.names[k]] = a
			if strings.Contains(ci.names[k], "$") {
				vars[strings.ReplaceAll(ci.names[k], "$", "_S_")] = a
			}
		}
	}
	if strings.HasPrefix(ct.Key, "fnparam:") {
		// the assumed contract of a function-typed parameter / free variable may mention the
		// enclosing function's own parameters and free variables
		for k, t := range v.params {
			if _, clash := vars[k]; !clash {
				vars[k] = t
			}
		}
	}
	mkEx := func(cur, old *State) *Ex {
		x := &Ex{enc: e, w: v.w, vars: map[string]*T{}, lets: map[string]string{}, cur: cur, old: old, clos: v.root().closures}
		if ci.fn != nil && ci.fn.Pkg != nil {
			x.pkg = ci.fn.Pkg.Pkg
		} else if ct.Pkg != "" {
			for _, p := range v.w.repoPkgs() {
				if p.Path() == ct.Pkg {
					x.pkg = p
				}
			}
		}
		for k, t := range vars {
			x.vars[k] = t
		}
		for _, l := range ct.Lets {
			x.lets[l.Name] = l.Expr
		}
		return x
	}
	// preconditions
	n := v.ordinal[in]
	xpre := mkEx(st, st)
	for k, c := range ct.Requires {
		g := xpre.Bool(c.Expr)
		props := c.Props
		if len(props) == 0 {
			props = ct.Props
		}
		// the caller's own properties also depend on establishing the callee's precondition
		props = unionProps(props, v.ctProps())
		v.oblige("pre@call", fmt.Sprintf("pre:%s%s@call%d", lastSeg(ci.display), clauseTag(c, k), n), props, c.Expr, v.pos(in.Pos()), R, g, st)
	}
	// `callsite CALLEE :: E` clauses of the function under proof: E over the callee's parameter names
	// (bound to the actual arguments) and this function's own parameters / free variables
	if v.ct != nil {
		for k, c := range v.ct.CallReqs {
			if !strings.HasSuffix(ci.display, c.Callee) && !strings.HasSuffix(shortKey(strings.TrimPrefix(ct.Key, "iface:")), c.Callee) {
				continue
			}
			if v.callReqHit == nil {
				v.callReqHit = map[int]bool{}
			}
			v.callReqHit[k] = true
			xc := v.exFor(st, v.entry, nil)
			// the calling function's own parameters stay reachable as NAME_caller when the callee has a
			// parameter of the same name
			for pn, pt := range v.params {
				xc.vars[pn+"_caller"] = pt
			}
			for kk, t := range vars {
				xc.vars[kk] = t
			}
			xc.resolve = v.resolver(in.Block(), st, nil)
			v.oblige("callsite", fmt.Sprintf("callsite%s@%s#%d", clauseTag(c, k), lastSeg(ci.display), n), v.propsOf(c), c.Expr, v.pos(in.Pos()), R, xc.Bool(c.Expr), st)
		}
	}
	old := st.clone()
	// frame: callee's assigns must be inside ours
	if !ct.HasAsg {
		st.havocAll()
		v.notes = append(v.notes, fmt.Sprintf("contract of %s has no assigns clause: every heap is havocked at %s", ci.display, v.pos(in.Pos())))
	} else {
		xa := mkEx(old, old)
		for _, loc := range ct.Assigns {
			v.havocLoc(xa, loc, st, in.Pos())
		}
	}
	// allocation counter may only grow
	nn := e.freshConst("next", sInt)
	e.assume(mk(sapp(">=", nn.S, old.next().S), sBool))
	st.set(allocHeap, nn)
	for _, r := range results {
		v.assumeWellFormed(r, st)
	}
	// postconditions
	switch len(results) {
	case 1:
		vars["result"] = results[0]
		vars["result0"] = results[0]
	default:
		for k, r := range results {
			vars[fmt.Sprintf("result%d", k)] = r
		}
	}
	for k := 0; k < rt.Len(); k++ {
		if nm := rt.At(k).Name(); nm != "" && nm != "_" {
			if _, clash := vars[nm]; !clash {
				vars[nm] = results[k]
			}
		}
	}
	xpost := mkEx(st, old)
	for _, c := range ct.Ensures {
		e.assume(tImp(R, xpost.Bool(c.Expr)))
	}
	if ct.Fresh && len(results) > 0 {
		r := results[0]
		ref := r.S
		if r.Sort.Kind == KSlice {
			ref = sapp("sl_arr", r.S)
		}
		e.assume(tImp(R, mk(sapp("and", sapp(">=", ref, old.next().S), sapp("<", ref, st.next().S)), sBool)))
	}
	if strings.HasPrefix(ct.Key, "fnparam:") && strings.HasSuffix(ct.Key, ".yield") && len(results) == 1 && results[0].Sort.Kind == KBool {
		st.set(ghostStopped, tOr(st.get(ghostStopped, sBool), tNot(results[0])))
	}
	// `always` clauses of the function under proof: a two-state invariant (entry state vs
	// the state right after this call) - every intermediate state a crash or a concurrent
	// observer could see between two calls satisfies it.
	if v.ct != nil && len(v.ct.Steps) > 0 && in != nil {
		// `step` clauses: what each single call may do (state just before it vs just after
		// it) - the guarantee half of a rely/guarantee argument about concurrent callers.
		xs := v.exFor(st, old, nil)
		xs.resolve = v.resolver(in.Block(), st, nil)
		for k, c := range v.ct.Steps {
			g := xs.Bool(c.Expr)
			v.oblige("step", fmt.Sprintf("step%s@%s#%d", clauseTag(c, k), lastSeg(ci.display), n), v.propsOf(c), c.Expr, v.pos(in.Pos()), R, g, st)
		}
	}
	if v.ct != nil && len(v.ct.Always) > 0 && in != nil {
		xa := v.exFor(st, v.entry, nil)
		xa.resolve = v.resolver(in.Block(), st, nil)
		for k, c := range v.ct.Always {
			g := xa.Bool(c.Expr)
			v.oblige("always", fmt.Sprintf("always%s@after:%s#%d", clauseTag(c, k), lastSeg(ci.display), n), v.propsOf(c), c.Expr, v.pos(in.Pos()), R, g, st)
		}
	}
	return pack()
}

// returnsFromInside: block b (which returns) is reached only through the loop's header and not
// through the loop's normal exit (a successor of the header outside the body): a return that
// leaves the loop early.
func returnsFromInside(li *loopInfo, b *ssa.BasicBlock) bool {
	if !li.header.Dominates(b) {
		return false
	}
	for _, s := range li.header.Succs {
		if !li.body[s.Index] && s.Dominates(b) {
			return false
		}
	}
	return true
}

// pureByDefault: package-level functions (no receiver) of standard-library packages that only
// compute values from their arguments.
func pureByDefault(fn *ssa.Function) bool {
	if fn.Signature.Recv() != nil || fn.Pkg == nil || fn.Pkg.Pkg == nil {
		return false
	}
	ps := fn.Signature.Params()
	for k := 0; k < ps.Len(); k++ {
		switch ps.At(k).Type().Underlying().(type) {
		case *types.Signature, *types.Pointer, *types.Map, *types.Chan:
			return false // callbacks and mutable arguments: not a pure value function
		}
	}
	switch fn.Pkg.Pkg.Path() {
	case "strings", "strconv", "unicode", "unicode/utf8", "fmt", "errors", "path", "path/filepath", "math", "math/bits", "cmp":
		return true
	}
	return false
}

func (v *fnVC) ctProps() []string {
	if v.ct != nil {
		return v.ct.Props
	}
	return nil
}

func unionProps(a, b []string) []string {
	seen := map[string]bool{}
	var out []string
	for _, l := range [][]string{a, b} {
		for _, p := range l {
			if !seen[p] {
				seen[p] = true
				out = append(out, p)
			}
		}
	}
	return out
}

func lastSeg(s string) string {
	if i := strings.LastIndex(s, "/"); i >= 0 {
		s = s[i+1:]
	}
	return s
}

// havocLoc forgets the location named by an assigns entry.
func (v *fnVC) havocLoc(x *Ex, loc string, st *State, pos token.Pos) {
	e := v.e
	loc = strings.TrimSpace(loc)
	if loc == "*" {
		st.havocAll()
		return
	}
	fresh := func(so *Sort) *T { return e.freshConst("hv", so) }
	inner := func(prefix string) (string, bool) {
		if strings.HasPrefix(loc, prefix+"(") && strings.HasSuffix(loc, ")") {
			return loc[len(prefix)+1 : len(loc)-1], true
		}
		return "", false
	}
	if arg, ok := inner("map"); ok {
		m := x.Term(arg, nil)
		mt := mapOf(m)
		ks, vs := e.sortOf(mt.Key()), e.sortOf(mt.Elem())
		for _, part := range []struct {
			n  string
			so *Sort
		}{{"has", arrSort(ks, sBool)}, {"val", arrSort(ks, vs)}, {"cnt", sI64}} {
			hn := mapHeap(ks, vs, part.n)
			h := st.get(hn, arrSort(sRef, part.so))
			st.set(hn, sto(h, m, fresh(part.so)))
		}
		v.frameCheck("map", m, pos, st)
		return
	}
	if arg, ok := inner("elems"); ok {
		s := x.Term(arg, nil)
		var et types.Type
		if s.GoT != nil {
			if sl, ok := types.Unalias(s.GoT).Underlying().(*types.Slice); ok {
				et = sl.Elem()
			}
		}
		if et == nil {
			fail("elems(%s): not a slice", arg)
		}
		es := e.sortOf(et)
		hn := elemHeap(es)
		h := st.get(hn, arrSort(sRef, arrSort(sI64, es)))
		ref := mk(sapp("sl_arr", s.S), sRef)
		st.set(hn, sto(h, ref, fresh(arrSort(sI64, es))))
		v.frameCheck("elems", ref, pos, st)
		return
	}
	if arg, ok := inner("cell"); ok {
		p := x.Term(arg, nil)
		pt, ok := types.Unalias(p.GoT).Underlying().(*types.Pointer)
		if !ok {
			fail("cell(%s): not a pointer", arg)
		}
		so := e.sortOf(pt.Elem())
		if so.Kind == KStruct {
			strct := structOf(pt.Elem())
			for k := 0; k < strct.NumFields(); k++ {
				f := strct.Field(k)
				fs := e.sortOf(f.Type())
				hn := fieldHeap(ownerName(pt.Elem()), f.Name())
				h := st.get(hn, arrSort(sRef, fs))
				st.set(hn, sto(h, p, fresh(fs)))
			}
		} else {
			hn := cellHeap(so)
			h := st.get(hn, arrSort(sRef, so))
			st.set(hn, sto(h, p, fresh(so)))
		}
		v.frameCheck("cell", p, pos, st)
		return
	}
	// ghost variable or ghost heap entry
	name := loc
	idxExpr := ""
	if i := strings.Index(loc, "["); i > 0 && strings.HasSuffix(loc, "]") {
		name, idxExpr = loc[:i], loc[i+1:len(loc)-1]
	}
	if g, ok := v.w.specs.Ghosts[name]; ok {
		c := x.child()
		c.vars = map[string]*T{}
		if g.Heap {
			ks, _ := c.typeFromString(g.Type)
			vs, _ := c.typeFromString(g.Val)
			h := st.get("G$"+name, arrSort(ks, vs))
			if idxExpr == "" {
				st.set("G$"+name, fresh(arrSort(ks, vs)))
			} else {
				st.set("G$"+name, sto(h, x.Term(idxExpr, ks), fresh(vs)))
			}
		} else {
			so, _ := c.typeFromString(g.Type)
			st.set("G$"+name, fresh(so))
		}
		fct := v.ct
		if v.parent != nil && fct == nil {
			fct = v.root().ct
		}
		if fct != nil && fct.HasAsg && !containsStr(fct.Assigns, name) && !containsStr(fct.Assigns, "*") && !containsStr(fct.Assigns, loc) {
			nfr := v.callOrd["frame"]
			v.callOrd["frame"] = nfr + 1
			goal := tFalse()
			if g.Heap && idxExpr != "" {
				ks, _ := c.typeFromString(g.Type)
				key := x.Term(idxExpr, ks)
				var alts []*T
				// an entry keyed by an object allocated in this function is not visible to the caller
				if ks.Kind == KRef {
					alts = append(alts, mk(sapp(">=", key.S, v.entry.next().S), sBool))
				}
				// or the entry is one of this function's own `assigns name[key]` locations
				rv := v
				if v.parent != nil && v.ct == nil {
					rv = v.root()
				}
				mx := rv.exFor(v.entry, v.entry, nil)
				for _, a := range fct.Assigns {
					if strings.HasPrefix(a, name+"[") && strings.HasSuffix(a, "]") {
						func() {
							defer func() { _ = recover() }()
							alts = append(alts, tEq(key, mx.Term(a[len(name)+1:len(a)-1], ks)))
						}()
					}
				}
				goal = tOr(alts...)
			}
			v.oblige("frame", fmt.Sprintf("frame#%d", nfr), fct.Props, "callee assigns ghost "+name+" which is outside `assigns`", v.pos(pos), v.reachNow(), goal, st)
		}
		return
	}
	// field location x.f
	if i := strings.LastIndex(loc, "."); i > 0 {
		base := x.Term(loc[:i], nil)
		fname := loc[i+1:]
		pt, ok := types.Unalias(base.GoT).Underlying().(*types.Pointer)
		if !ok {
			fail("assigns %s: base is not a pointer", loc)
		}
		strct := structOf(pt.Elem())
		fi := fieldIndex(strct, fname)
		if fi < 0 {
			fail("assigns %s: no such field", loc)
		}
		fs := e.sortOf(strct.Field(fi).Type())
		hn := fieldHeap(ownerName(pt.Elem()), fname)
		h := st.get(hn, arrSort(sRef, fs))
		st.set(hn, sto(h, base, fresh(fs)))
		v.frameCheck("field:"+ownerName(pt.Elem())+"."+fname, base, pos, st)
		return
	}
	fail("cannot interpret assigns location %q", loc)
}

func containsStr(l []string, s string) bool {
	for _, x := range l {
		if x == s {
			return true
		}
	}
	return false
}

// ---- builtins --------------------------------------------------------------------------

func (v *fnVC) builtin(in ssa.CallInstruction, b *ssa.Builtin, st *State) *T {
	e := v.e
	c := in.Common()
	arg := func(k int) *T { return v.val(c.Args[k]) }
	switch b.Name() {
	case "len":
		a := arg(0)
		switch a.Sort.Kind {
		case KStr:
			return mk(sapp("slen", a.S), sI64)
		case KSlice:
			return mk(sapp("sl_len", a.S), sI64)
		case KRef:
			if mt, ok := c.Args[0].Type().Underlying().(*types.Map); ok {
				r := e.define("maplen", mapLen(e, st, a, mt))
				e.assume(mk(sapp("bvsle", bvLit(0, 64), r.S), sBool))
				return r
			}
			r := e.freshConst("chanlen", sI64)
			return r
		}
	case "cap":
		a := arg(0)
		if a.Sort.Kind == KSlice {
			return mk(sapp("sl_cap", a.S), sI64)
		}
	case "min", "max":
		acc := arg(0)
		for k := 1; k < len(c.Args); k++ {
			acc = minmax(b.Name() == "min", acc, arg(k))
		}
		val := in.(ssa.Value)
		return v.bind(val, acc)
	case "delete":
		m := arg(0)
		mt := c.Args[0].Type().Underlying().(*types.Map)
		v.frameCheck("map", m, in.Pos(), st)
		mapDelete(e, st, m, arg(1), mt)
		return nil
	case "append":
		return v.appendOp(in, st)
	case "copy":
		return v.copyOp(in, st)
	case "close":
		v.notes = append(v.notes, "close(chan) at "+v.pos(in.Pos()))
		return nil
	case "print", "println":
		return nil
	case "clear":
		st.havocAll()
		return nil
	}
	v.unsupported("builtin %s at %s", b.Name(), v.pos(in.Pos()))
	st.havocAll()
	if val, ok := in.(ssa.Value); ok {
		return e.freshConst("bi", e.sortOf(val.Type()))
	}
	return nil
}

func (v *fnVC) appendOp(in ssa.CallInstruction, st *State) *T {
	e := v.e
	c := in.Common()
	s := v.val(c.Args[0])
	t := v.val(c.Args[1])
	val := in.(ssa.Value)
	st0, isSlice := val.Type().Underlying().(*types.Slice)
	if !isSlice {
		v.unsupported("append result type")
		return e.freshConst("app", sSlice)
	}
	et := st0.Elem()
	es := e.sortOf(et)
	var tlen string
	if t.Sort.Kind == KStr {
		tlen = sapp("slen", t.S)
	} else {
		tlen = sapp("sl_len", t.S)
	}
	newLen := sapp("bvadd", sapp("sl_len", s.S), tlen)
	fits := mk(sapp("bvsle", newLen, sapp("sl_cap", s.S)), sBool)
	// a fresh backing array for the growth case
	cur := st.next()
	fa := e.freshConst("a$app", sRef)
	e.assume(tEq(fa, cur))
	st.set(allocHeap, mk(sapp("+", cur.S, "1"), sInt))
	r := e.freshConst("app", sSlice).withGo(val.Type())
	newCap := e.freshConst("appcap", sI64)
	e.assume(mk(sapp("and", sapp("bvsle", newLen, newCap.S), sapp("bvult", newCap.S, "#x4000000000000000")), sBool))
	inPlace := sapp("mkSlice", sapp("sl_arr", s.S), sapp("sl_off", s.S), newLen, sapp("sl_cap", s.S))
	grown := sapp("mkSlice", fa.S, bvLit(0, 64), newLen, newCap.S)
	// appending nothing to nil stays nil
	nothing := sapp("and", sapp("=", sapp("sl_arr", s.S), "0"), sapp("=", tlen, bvLit(0, 64)))
	e.assume(tEq(r, mk(sapp("ite", nothing, "nilSlice", sapp("ite", sapp("and", fits.S, sapp("not", sapp("=", sapp("sl_arr", s.S), "0"))), inPlace, grown)), sSlice)))
	// element contents
	hn := elemHeap(es)
	h := st.get(hn, arrSort(sRef, arrSort(sI64, es)))
	srcArr := sapp("select", h.S, sapp("sl_arr", s.S))
	// new array: prefix copied (quantified, pattern on the new array), then appended elements
	na := e.freshConst("apparr", arrSort(sI64, es))
	e.assume(mk(fmt.Sprintf("(forall ((i (_ BitVec 64))) (! (=> (and (bvsle #x0000000000000000 i) (bvslt i (sl_len %s))) (= (select %s i) (select %s (bvadd (sl_off %s) i)))) :pattern ((select %s i))))", s.S, na.S, srcArr, s.S, na.S), sBool))
	// appended elements, when the appended slice has a statically known small length (varargs)
	var elems []*T
	known := false
	if sl, ok := c.Args[1].(*ssa.Slice); ok {
		if al, ok := sl.X.(*ssa.Alloc); ok && al.Comment == "varargs" {
			at := al.Type().Underlying().(*types.Pointer).Elem().Underlying().(*types.Array)
			if at.Len() <= 4 {
				known = true
				for k := int64(0); k < at.Len(); k++ {
					elems = append(elems, mk(sapp("select", sapp("select", h.S, v.val(al).S), bvLit(k, 64)), es))
				}
			}
		}
	}
	if known {
		grownArr := na.S
		placeArr := srcArr
		for k, el := range elems {
			grownArr = sapp("store", grownArr, sapp("bvadd", sapp("sl_len", s.S), bvLit(int64(k), 64)), el.S)
			placeArr = sapp("store", placeArr, sapp("sidx", sapp("sl_off", s.S), sapp("bvadd", sapp("sl_len", s.S), bvLit(int64(k), 64))), el.S)
		}
		useGrown := sapp("not", sapp("=", sapp("sl_arr", r.S), sapp("sl_arr", s.S)))
		h2 := sapp("ite", useGrown, sapp("store", h.S, fa.S, grownArr), sapp("store", h.S, sapp("sl_arr", s.S), placeArr))
		st.set(hn, e.define("Happ", mk(h2, h.Sort)))
	} else {
		// unknown appended contents: the written region is unconstrained
		unk := e.freshConst("appunk", arrSort(sI64, es))
		useGrown := sapp("not", sapp("=", sapp("sl_arr", r.S), sapp("sl_arr", s.S)))
		h2 := sapp("ite", useGrown, sapp("store", h.S, fa.S, na.S), sapp("store", h.S, sapp("sl_arr", s.S), unk.S))
		st.set(hn, e.define("Happ", mk(h2, h.Sort)))
		v.notes = append(v.notes, "append of a slice of unknown length at "+v.pos(in.Pos())+": appended contents unconstrained")
	}
	v.frameCheck("elems", mk(sapp("sl_arr", s.S), sRef), in.Pos(), st)
	return r
}

func (v *fnVC) copyOp(in ssa.CallInstruction, st *State) *T {
	e := v.e
	c := in.Common()
	dst := v.val(c.Args[0])
	src := v.val(c.Args[1])
	dt := c.Args[0].Type().Underlying().(*types.Slice)
	es := e.sortOf(dt.Elem())
	var slen string
	if src.Sort.Kind == KStr {
		slen = sapp("slen", src.S)
	} else {
		slen = sapp("sl_len", src.S)
	}
	n := e.define("copyn", mk(sapp("ite", sapp("bvslt", sapp("sl_len", dst.S), slen), sapp("sl_len", dst.S), slen), sI64))
	hn := elemHeap(es)
	h := st.get(hn, arrSort(sRef, arrSort(sI64, es)))
	na := e.freshConst("copyarr", arrSort(sI64, es))
	dstArr := sapp("select", h.S, sapp("sl_arr", dst.S))
	if src.Sort.Kind == KSlice {
		srcArr := sapp("select", h.S, sapp("sl_arr", src.S))
		// copied range equals source; the rest of dst's array is unchanged
		e.assume(mk(fmt.Sprintf("(forall ((i (_ BitVec 64))) (! (= (select %s i) (ite (and (bvsle (sl_off %s) i) (bvslt i (bvadd (sl_off %s) %s))) (select %s (bvadd (sl_off %s) (bvsub i (sl_off %s)))) (select %s i))) :pattern ((select %s i))))",
			na.S, dst.S, dst.S, n.S, srcArr, src.S, dst.S, dstArr, na.S), sBool))
	}
	v.frameCheck("elems", mk(sapp("sl_arr", dst.S), sRef), in.Pos(), st)
	st.set(hn, mk(sapp("ite", sapp("=", sapp("sl_arr", dst.S), "0"), h.S, sapp("store", h.S, sapp("sl_arr", dst.S), na.S)), h.Sort))
	return n
}

// ---- return ----------------------------------------------------------------------------------

func (v *fnVC) ret(i *ssa.Return, st *State) {
	if v.onReturn != nil {
		v.onReturn(i, st)
		return
	}
	if v.ct == nil {
		return
	}
	if v.ct.YieldN != "" {
		v.producerReturn(i, st)
	}
	// `loop N return-requires E`: a return from inside loop N needs E (an iterator body may
	// only leave its loop early when the consumer stopped it)
	for k, c := range v.ct.RetReqs {
		for _, li := range v.loops {
			if li.ordinal == c.Loop && returnsFromInside(li, i.Block()) {
				x := v.exFor(st, v.entry, nil)
				x.resolve = v.resolver(i.Block(), st, nil)
				v.oblige("return-requires", fmt.Sprintf("loop%d.return-requires%s@ret%d", c.Loop, clauseTag(c, k), v.ordinal[i]), v.propsOf(c), c.Expr, v.pos(i.Pos()), v.reachNow(), x.Bool(c.Expr), st)
			}
		}
	}
	R := v.reachNow()
	vars := map[string]*T{}
	var results []*T
	for _, r := range i.Results {
		results = append(results, v.val(r))
	}
	switch len(results) {
	case 1:
		vars["result"] = results[0]
		vars["result0"] = results[0]
	default:
		for k, r := range results {
			vars[fmt.Sprintf("result%d", k)] = r
		}
	}
	rt := v.fn.Signature.Results()
	for k := 0; k < rt.Len() && k < len(results); k++ {
		if nm := rt.At(k).Name(); nm != "" && nm != "_" {
			if _, clash := v.params[nm]; !clash {
				vars[nm] = results[k].withGo(rt.At(k).Type())
			}
		}
	}
	for k := range results {
		if results[k].GoT == nil {
			results[k] = results[k].withGo(rt.At(k).Type())
		}
	}
	x := v.exFor(st, v.entry, vars)
	x.resolve = v.resolver(i.Block(), st, nil)
	v.useLemmas(x)
	nret := v.ordinal[i]
	for k, c := range v.ct.Ensures {
		if c.Ghost {
			continue // ghost update performed by the contract itself, assumed at call sites
		}
		g := x.Bool(c.Expr)
		v.oblige("post", fmt.Sprintf("post%s@ret%d", clauseTag(c, k), nret), v.propsOf(c), c.Expr, v.pos(i.Pos()), R, g, st)
		v.obls[len(v.obls)-1].resultTerms = results
	}
	if v.ct.Fresh && len(results) > 0 {
		ref := results[0].S
		if results[0].Sort.Kind == KSlice {
			ref = sapp("sl_arr", results[0].S)
		}
		v.oblige("post", fmt.Sprintf("post[fresh]@ret%d", nret), v.ct.Props, "result is freshly allocated", v.pos(i.Pos()), R, mk(sapp(">=", ref, v.entry.next().S), sBool), st)
	}
}

// ---- go statements ----------------------------------------------------------------------------

func (v *fnVC) goStmt(i *ssa.Go, st *State) {
	// No interleaving semantics: the spawned call is not executed here. Its
	// precondition (if it has a contract) is still an obligation at this site.
	c := i.Common()
	fn, ok := c.Value.(*ssa.Function)
	var pre []*T
	var preNames []string
	if mc, isClo := c.Value.(*ssa.MakeClosure); isClo {
		fn, ok = mc.Fn.(*ssa.Function), true
		for k, b := range mc.Bindings {
			pre = append(pre, v.val(b))
			preNames = append(preNames, fn.FreeVars[k].Name())
		}
	}
	if ok {
		if ct := v.w.specs.Contracts[funcKey(fn)]; ct != nil {
			args := pre
			names := preNames
			for k, a := range c.Args {
				args = append(args, v.val(a))
				if k < len(fn.Params) {
					names = append(names, fn.Params[k].Name())
				}
			}
			x := &Ex{enc: v.e, w: v.w, pkg: fn.Pkg.Pkg, vars: map[string]*T{}, lets: map[string]string{}, cur: st, old: st}
			for k := range args {
				if k < len(names) {
					x.vars[names[k]] = args[k]
				}
			}
			for _, l := range ct.Lets {
				x.lets[l.Name] = l.Expr
			}
			n := v.ordinal[i]
			for k, cl := range ct.Requires {
				props := unionProps(cl.Props, unionProps(ct.Props, v.ctProps()))
				v.oblige("pre@go", fmt.Sprintf("pre:%s%s@go%d", lastSeg(shortKey(funcKey(fn))), clauseTag(cl, k), n), props, cl.Expr, v.pos(i.Pos()), v.reachNow(), x.Bool(cl.Expr), st)
			}
		}
	}
	// ghost count of goroutines started (declared as `ghost var goroutinesSpawned int`)
	if _, ok := v.w.specs.Ghosts["goroutinesSpawned"]; ok {
		cur := st.get("G$goroutinesSpawned", sI64)
		st.set("G$goroutinesSpawned", v.e.define("spawned", mk(sapp("bvadd", cur.S, bvLit(1, 64)), sI64)))
	}
	v.notes = append(v.notes, "go statement at "+v.pos(i.Pos())+": spawned call not executed in the proof (no interleaving semantics; what the goroutine writes is not part of this function's post-state)")
}

// useLemmas assumes ground instances of proved lemmas named by `use LEMMA(args)` clauses
// (the lemma's bound variables are replaced, in order, by the argument expressions evaluated here;
// an argument that cannot be evaluated at this return - a local not defined on this path - skips the instance).
func (v *fnVC) useLemmas(x *Ex) {
	for _, u := range v.ct.Uses {
		i := strings.Index(u, "(")
		if i < 0 || !strings.HasSuffix(u, ")") {
			fail("bad use clause %q", u)
		}
		name := strings.TrimSpace(u[:i])
		var lem *Axiom
		for _, ax := range v.w.specs.Axioms {
			if ax.Name == name && ax.Lemma {
				lem = ax
			}
		}
		if lem == nil {
			fail("use: no lemma named %q", name)
		}
		args := splitTop(u[i+1:len(u)-1], ',')
		body := strings.TrimSpace(lem.Expr)
		if !strings.HasPrefix(body, "forall ") {
			fail("use: lemma %s is not universally quantified", name)
		}
		k := findTop(body, "::")
		binders := splitTop(strings.TrimSpace(body[len("forall "):k]), ',')
		if len(binders) != len(args) {
			fail("use %s: %d arguments for %d bound variables", name, len(args), len(binders))
		}
		c := x.child()
		ok := true
		func() {
			defer func() {
				if r := recover(); r != nil {
					if _, isSpec := r.(specErr); isSpec {
						ok = false
						return
					}
					panic(r)
				}
			}()
			for j, b := range binders {
				bf := strings.Fields(strings.TrimSpace(b))
				so, _ := c.typeFromString(strings.Join(bf[1:], " "))
				c.vars[bf[0]] = x.Term(strings.TrimSpace(args[j]), so)
			}
			inst := c.Bool(body[k+2:])
			v.e.assume(tImp(v.reachNow(), inst))
			v.e.usesLemma = append(v.e.usesLemma, name)
		}()
		_ = ok
	}
}
