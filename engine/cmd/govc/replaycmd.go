package main

import (
	"encoding/json"
	"flag"
	"fmt"
	"os"
)

// cmdReplay shows a replay file written for a failed obligation and decides its
// verification condition again (the .smt2 file recorded beside it). Exit 1 with a
// VIOLATION line if the condition still does not discharge, 0 if it does now.
func cmdReplay(args []string) int {
	fs := flag.NewFlagSet("replay", flag.ExitOnError)
	file := fs.String("file", "", "replay JSON written by a check")
	timeout := fs.Int("timeout", 60, "per-solver timeout in seconds")
	fs.Parse(args)
	b, err := os.ReadFile(*file)
	if err != nil {
		fmt.Println("UNDECIDED cannot read replay file:", err)
		return 2
	}
	var rp Replay
	if err := json.Unmarshal(b, &rp); err != nil {
		fmt.Println("UNDECIDED bad replay file:", err)
		return 2
	}
	fmt.Printf("property   : %s\nobligation : %s (%s)\nfunction   : %s\nat         : %s\nclause     : %s\nrecorded   : %s\n", rp.Property, rp.Obligation, rp.Kind, rp.Function, rp.At, rp.Clause, rp.Result)
	if rp.Reproduced {
		fmt.Printf("reproduced on the real code with input %v\n%s\n", rp.ReplayInput, rp.ReplayOut)
	} else {
		fmt.Println("note       :", rp.ReplayNote)
	}
	q, err := os.ReadFile(rp.SMTFile)
	if err != nil {
		fmt.Println("UNDECIDED the recorded verification condition is missing:", err)
		return 2
	}
	os.Setenv("GOVC_NOCACHE", "1")
	res := solve("replay-"+rp.Obligation, string(q), *timeout, 1)
	fmt.Printf("re-decided : %s (%s)\n", res.Status, res.Solver)
	if res.Status == "unsat" {
		fmt.Println("the recorded condition discharges now")
		return 0
	}
	tail := ""
	if !rp.Reproduced {
		tail = " no-failing-input-found"
	}
	fmt.Printf("VIOLATION property=%s replay=%s obligation=%s result=%s%s\n", rp.Property, *file, rp.Obligation, res.Status, tail)
	return 1
}
