package main

// SSA instruction semantics.

import (
	"fmt"
	"go/token"
	"go/types"
	"strconv"
	"strings"

	"golang.org/x/tools/go/ssa"
)

func (v *fnVC) instr(b *ssa.BasicBlock, in ssa.Instruction, st *State) {
	e := v.e
	R := v.reach[b.Index]
	switch i := in.(type) {
	case *ssa.DebugRef:
		if id, ok := i.Expr.(interface{ String() string }); ok {
			_ = id
		}
		if obj := i.Object(); obj != nil {
			v.dbg[obj.Name()] = append(v.dbg[obj.Name()], dbgRef{b, i.X, i.IsAddr})
		}
	case *ssa.Phi:
		if _, done := v.vals[i]; done {
			return // loop-header phi, already havocked
		}
		t := e.freshConst(sanitize(i.Name())+"$"+sanitize(i.Comment), e.sortOf(i.Type()))
		t.GoT = i.Type()
		for k, p := range b.Preds {
			if ec, ok := v.edge[[2]int{p.Index, b.Index}]; ok {
				pv := v.val(i.Edges[k])
				if t.Sort.Kind == KTuple {
					v.unsupported("tuple phi")
					continue
				}
				e.assume(tImp(ec, tEq(t, pv)))
			}
		}
		v.vals[i] = t
	case *ssa.BinOp:
		v.bind(i, v.binop(i, st))
	case *ssa.UnOp:
		v.unop(i, st)
	case *ssa.ChangeType:
		v.setVal(i, v.val(i.X).withGo(i.Type()))
		if a, ok := v.addrs[i.X]; ok {
			v.addrs[i] = a
		}
	case *ssa.ChangeInterface:
		v.setVal(i, v.val(i.X).withGo(i.Type()))
	case *ssa.Convert:
		v.convert(i, st)
	case *ssa.MakeInterface:
		x := v.val(i.X)
		key := x.Sort.KeyS()
		mkf, unf := "mkI$"+key, "unI$"+key
		e.decl(mkf, fmt.Sprintf("(declare-fun %s (%s Int) Iface)", mkf, x.Sort.SMT()))
		e.decl(unf, fmt.Sprintf("(declare-fun %s (Iface) %s)", unf, x.Sort.SMT()))
		tag := strconv.Itoa(e.typeTag(i.X.Type()))
		t := mk(sapp(mkf, x.S, tag), sIface)
		r := v.bind(i, t)
		e.assume(mk(sapp("=", sapp("ityp", r.S), tag), sBool))
		e.assume(mk(sapp("=", sapp(unf, r.S), x.S), sBool))
		r.Op, r.Args = "mkiface", []*T{x}
	case *ssa.TypeAssert:
		v.typeAssert(i, st)
	case *ssa.Extract:
		tup := v.val(i.Tuple)
		if tup.Tuple == nil || i.Index >= len(tup.Tuple) {
			v.unsupported("extract from non-tuple %s", i.Tuple.Name())
			v.setVal(i, e.freshConst("ext", e.sortOf(i.Type())))
			return
		}
		v.setVal(i, tup.Tuple[i.Index].withGo(i.Type()))
	case *ssa.Alloc:
		v.alloc(i, st)
	case *ssa.FieldAddr:
		base := v.val(i.X)
		v.safetyOb("nil-deref", i.Pos(), mk(sapp("not", sapp("=", base.S, "0")), sBool))
		strct := structOf(i.X.Type())
		f := strct.Field(i.Field)
		owner := ownerName(i.X.Type().Underlying().(*types.Pointer).Elem())
		fn := "fld$" + owner + "." + f.Name()
		e.decl(fn, fmt.Sprintf("(declare-fun %s (Int) Int)", fn))
		t := mk(sapp(fn, base.S), sRef).withGo(i.Type())
		// the address of a field of a non-nil object is non-nil
		e.assume(tImp(R, mk(sapp("not", sapp("=", t.S, "0")), sBool)))
		v.vals[i] = t
		v.addrs[i] = &addrInfo{kind: "field", base: base, owner: owner, field: f.Name(), typ: f.Type()}
	case *ssa.Field:
		x := v.val(i.X)
		strct := structOf(i.X.Type())
		f := strct.Field(i.Field)
		so := e.sortOf(i.X.Type())
		if so.Kind != KStruct {
			v.unsupported("field of opaque struct value %s", i.X.Type())
			v.setVal(i, e.freshConst("fld", e.sortOf(f.Type())))
			return
		}
		v.setVal(i, mk(sapp(selName(so.Name, f.Name(), i.Field), x.S), e.sortOf(f.Type())).withGo(f.Type()))
	case *ssa.IndexAddr:
		v.indexAddr(i, st)
	case *ssa.Index:
		if bt, ok := i.X.Type().Underlying().(*types.Basic); ok && bt.Info()&types.IsString != 0 {
			x := v.val(i.X)
			idx := intTo64(v.val(i.Index))
			v.safetyOb("index-out-of-range", i.Pos(), mk(sapp("and", sapp("bvsle", bvLit(0, 64), idx.S), sapp("bvslt", idx.S, sapp("slen", x.S))), sBool))
			v.bind(i, mk(sapp("sat", x.S, idx.S), sU8))
			return
		}
		if at, ok := i.X.Type().Underlying().(*types.Array); ok {
			x := v.val(i.X)
			idx := intTo64(v.val(i.Index))
			v.safetyOb("index-out-of-range", i.Pos(), mk(sapp("and", sapp("bvsle", bvLit(0, 64), idx.S), sapp("bvslt", idx.S, bvLit(at.Len(), 64))), sBool))
			v.bind(i, mk(sapp("select", x.S, idx.S), e.sortOf(at.Elem())))
			return
		}
		v.unsupported("index of %s value at %s", i.X.Type(), v.pos(i.Pos()))
		v.setVal(i, e.freshConst("idx", e.sortOf(i.Type())))
	case *ssa.Lookup:
		v.lookup(i, st)
	case *ssa.Slice:
		v.sliceOp(i, st)
	case *ssa.Store:
		val := v.val(i.Val)
		v.store(i.Addr, val, st, i.Pos())
	case *ssa.MapUpdate:
		m := v.val(i.Map)
		mt := i.Map.Type().Underlying().(*types.Map)
		v.safetyOb("nil-map-write", i.Pos(), mk(sapp("not", sapp("=", m.S, "0")), sBool))
		v.frameCheck("map", m, i.Pos(), st)
		mapStore(e, st, m, v.val(i.Key), v.val(i.Value), mt)
	case *ssa.MakeMap:
		a := v.newRef(i, st)
		mt := i.Type().Underlying().(*types.Map)
		ks, vs := e.sortOf(mt.Key()), e.sortOf(mt.Elem())
		hn := mapHeap(ks, vs, "has")
		h := st.get(hn, arrSort(sRef, arrSort(ks, sBool)))
		st.set(hn, sto(h, a, mk("((as const "+arrSort(ks, sBool).SMT()+") false)", arrSort(ks, sBool))))
		cn := mapHeap(ks, vs, "cnt")
		c := st.get(cn, arrSort(sRef, sI64))
		st.set(cn, sto(c, a, tBV(0, sI64)))
	case *ssa.MakeChan:
		ch := v.newRef(i, st)
		// the capacity of a channel is fixed when it is made (`cap(ch)` in specifications)
		e.decl("chcap", "(declare-fun chcap (Int) (_ BitVec 64))")
		e.assume(tImp(R, mk(sapp("=", sapp("chcap", ch.S), intTo64(v.val(i.Size)).S), sBool)))
	case *ssa.MakeSlice:
		a := v.newRef(i, st)
		ln := v.val(i.Len)
		cp := v.val(i.Cap)
		ln = intTo64(ln)
		cp = intTo64(cp)
		v.safetyOb("makeslice-len", i.Pos(), mk(sapp("and", sapp("bvsle", bvLit(0, 64), ln.S), sapp("bvsle", ln.S, cp.S)), sBool))
		e.assume(tImp(R, mk(sapp("bvult", cp.S, "#x4000000000000000"), sBool)))
		e.uses["make([]T, n, m) succeeds only for capacities far below 2^62 (larger requests abort the process with out-of-memory, which is not modelled)"] = true
		sl := mk(sapp("mkSlice", a.S, bvLit(0, 64), ln.S, cp.S), sSlice).withGo(i.Type())
		et := i.Type().Underlying().(*types.Slice).Elem()
		es := e.sortOf(et)
		hn := elemHeap(es)
		h := st.get(hn, arrSort(sRef, arrSort(sI64, es)))
		st.set(hn, sto(h, a, mk("((as const "+arrSort(sI64, es).SMT()+") "+e.zero(et).S+")", arrSort(sI64, es))))
		v.vals[i] = e.define(sanitize(i.Name()), sl).withGo(i.Type())
	case *ssa.MakeClosure:
		t := e.freshConst("clo$"+sanitize(i.Fn.Name()), sFn)
		e.assume(mk(sapp("not", sapp("=", t.S, "nilFn")), sBool))
		t.GoT = i.Type()
		v.vals[i] = t
		v.recordClosure(i, t, st)
	case *ssa.Range:
		v.rangeInit(i, st)
	case *ssa.Next:
		v.next(i, st)
	case *ssa.Select:
		// no interleaving semantics: any ready case may be chosen, received values are unconstrained
		v.notes = append(v.notes, "select at "+v.pos(i.Pos())+": outcome unconstrained (no interleaving semantics)")
		v.setVal(i, e.freshConst("sel", e.sortOf(i.Type())))
	case *ssa.Send:
		v.notes = append(v.notes, "channel send at "+v.pos(i.Pos())+" (no interleaving semantics)")
		// ghost count of sends per channel (`sent(ch)` in specifications)
		ch := v.val(i.Chan)
		h := st.get("G$chansent", arrSort(sRef, sI64))
		st.set("G$chansent", sto(h, ch, mk(sapp("bvadd", sapp("select", h.S, ch.S), bvLit(1, 64)), sI64)))
	case *ssa.Go:
		v.spawned = append(v.spawned, i)
		v.goStmt(i, st)
	case *ssa.Defer:
		v.defers = append(v.defers, deferRec{i, R})
	case *ssa.RunDefers:
		for k := len(v.defers) - 1; k >= 0; k-- {
			d := v.defers[k]
			if d.reach.S == "true" || d.instr.Block().Dominates(b) {
				v.call(d.instr, st)
			} else {
				// conditionally registered: run on a copy and merge
				alt := st.clone()
				v.call(d.instr, alt)
				merged := v.e.newState()
				merged.blk = b.Index
				merged.parents = []*State{alt, st.clone()}
				merged.conds = []*T{d.reach, tNot(d.reach)}
				names := map[string]*Sort{}
				for k2, t := range alt.m {
					names[k2] = t.Sort
				}
				for k2, t := range st.m {
					names[k2] = t.Sort
				}
				for _, n := range sortedKeys(names) {
					merged.get(n, names[n])
				}
				*st = *merged
			}
		}
	case *ssa.Call:
		v.call(i, st)
	case *ssa.Panic:
		if strings.HasPrefix(b.Comment, "rangefunc.") || b.Comment == "yield-invalid" {
			// go/ssa's range-over-func protocol checks: unreachable for iterators that obey the protocol
			v.e.uses["range-over-func protocol: iterator functions never call yield after it returned false, nor re-enter it (go/ssa's synthetic protocol panics are unreachable)"] = true
			v.e.assume(tImp(R, tFalse()))
			return
		}
		v.safetyOb("explicit-panic", i.Pos(), tFalse())
	case *ssa.Return:
		v.ret(i, st)
	case *ssa.Jump:
		v.setEdge(b, b.Succs[0], R, st)
	case *ssa.If:
		c := v.val(i.Cond)
		v.setEdge(b, b.Succs[0], tAnd(R, c), st)
		v.setEdge(b, b.Succs[1], tAnd(R, tNot(c)), st)
	default:
		v.unsupported("instruction %T at %s", in, v.pos(in.Pos()))
		if val, ok := in.(ssa.Value); ok {
			v.setVal(val, e.freshConst("unsup", e.sortOf(val.Type())))
		}
	}
}

func intTo64(t *T) *T {
	if t.Sort.Kind == KBV && t.Sort.W != 64 {
		return bvResize(t, sI64)
	}
	return t
}

// exitRequires: `loop N exit-requires E` - an edge that leaves loop N from a block of its body other
// than the header (break, return, goto; the header's own exit is the loop running to completion) needs E.
func (v *fnVC) exitRequires(from, to *ssa.BasicBlock, cond *T, st *State) {
	if v.ct == nil || v.parent != nil || len(v.ct.ExitReqs) == 0 {
		return
	}
	for k, c := range v.ct.ExitReqs {
		for _, li := range v.loops {
			if li.ordinal != c.Loop || from == li.header || !li.body[from.Index] || li.body[to.Index] || to == li.header {
				continue
			}
			x := v.exFor(st, v.entry, nil)
			x.resolve = v.resolver(from, st, nil)
			v.oblige("exit-requires", fmt.Sprintf("loop%d.exit-requires%s@b%d-b%d", c.Loop, clauseTag(c, k), from.Index, to.Index), v.propsOf(c), c.Expr, v.pos(from.Instrs[len(from.Instrs)-1].Pos()), cond, x.Bool(c.Expr), st)
		}
	}
}

func (v *fnVC) setEdge(from, to *ssa.BasicBlock, cond *T, st *State) {
	v.exitRequires(from, to, cond, st)
	name := fmt.Sprintf("E$%d$%d", from.Index, to.Index)
	if v.parent != nil {
		v.e.fresh++
		name = fmt.Sprintf("E$c%d$%d$%d", v.e.fresh, from.Index, to.Index)
	}
	if v.e.declSeen[name] {
		// two edges between the same pair (if with identical successors)
		prev := v.edge[[2]int{from.Index, to.Index}]
		_ = prev
		v.e.fresh++
		name = fmt.Sprintf("%s!%d", name, v.e.fresh)
		v.e.declConst(name, sBool)
		v.e.assume(tEq(mk(name, sBool), tOr(v.edge[[2]int{from.Index, to.Index}], cond)))
		v.edge[[2]int{from.Index, to.Index}] = mk(name, sBool)
		return
	}
	v.e.declConst(name, sBool)
	v.e.assume(tEq(mk(name, sBool), cond))
	ec := mk(name, sBool)
	v.edge[[2]int{from.Index, to.Index}] = ec
	if v.back[[2]int{from.Index, to.Index}] {
		v.backEdge(from, to, ec, st)
	}
}

// ---- allocation ------------------------------------------------------------------

func (v *fnVC) newRef(x ssa.Value, st *State) *T {
	e := v.e
	cur := st.next()
	a := e.freshConst("a$"+sanitize(x.Name()), sRef)
	e.assume(tEq(a, cur))
	st.set(allocHeap, mk(sapp("+", cur.S, "1"), sInt))
	a.GoT = x.Type()
	v.vals[x] = a
	return a
}

func (v *fnVC) alloc(i *ssa.Alloc, st *State) {
	a := v.newRef(i, st)
	elem := i.Type().Underlying().(*types.Pointer).Elem()
	v.storeWhole(a, elem, v.e.zero(elem), st)
	// ghost heaps keyed by a pointer to this type start at the zero value (e.g. an empty strings.Builder)
	for _, name := range sortedKeys(v.w.specs.Ghosts) {
		g := v.w.specs.Ghosts[name]
		if !g.Heap || !strings.HasPrefix(g.Type, "*") {
			continue
		}
		x := &Ex{enc: v.e, w: v.w, pkg: v.fn.Pkg.Pkg, vars: map[string]*T{}, lets: map[string]string{}, cur: st, old: st}
		func() {
			defer func() { _ = recover() }()
			_, kt := x.typeFromString(g.Type)
			if kt == nil || !types.Identical(kt, i.Type()) {
				return
			}
			ks, _ := x.typeFromString(g.Type)
			vs, vt := x.typeFromString(g.Val)
			h := st.get("G$"+name, arrSort(ks, vs))
			st.set("G$"+name, sto(h, a, v.e.zeroOfSort(vs, vt)))
		}()
	}
}

// storeWhole writes a complete value of type elem at reference a.
func (v *fnVC) storeWhole(a *T, elem types.Type, val *T, st *State) {
	e := v.e
	so := e.sortOf(elem)
	if at, ok := elem.Underlying().(*types.Array); ok {
		es := e.sortOf(at.Elem())
		hn := elemHeap(es)
		h := st.get(hn, arrSort(sRef, arrSort(sI64, es)))
		if val != nil && val.Sort.Kind == KArray {
			st.set(hn, sto(h, a, val))
			return
		}
		st.set(hn, sto(h, a, mk("((as const "+arrSort(sI64, es).SMT()+") "+e.zero(at.Elem()).S+")", arrSort(sI64, es))))
		return
	}
	if so.Kind == KStruct {
		strct := structOf(elem)
		owner := ownerName(elem)
		for k := 0; k < strct.NumFields(); k++ {
			f := strct.Field(k)
			fs := e.sortOf(f.Type())
			hn := fieldHeap(owner, f.Name())
			h := st.get(hn, arrSort(sRef, fs))
			fv := mk(sapp(selName(so.Name, f.Name(), k), val.S), fs)
			st.set(hn, sto(h, a, fv))
		}
		return
	}
	hn := cellHeap(so)
	h := st.get(hn, arrSort(sRef, so))
	st.set(hn, sto(h, a, val))
}

// ---- loads and stores ---------------------------------------------------------------

func (v *fnVC) load(addr ssa.Value, elem types.Type, st *State) *T {
	e := v.e
	if ai, ok := v.addrs[addr]; ok {
		switch ai.kind {
		case "field":
			fs := e.sortOf(ai.typ)
			h := st.get(fieldHeap(ai.owner, ai.field), arrSort(sRef, fs))
			return sel(h, ai.base, fs).withGo(ai.typ)
		case "elem":
			es := e.sortOf(ai.typ)
			h := st.get(elemHeap(es), arrSort(sRef, arrSort(sI64, es)))
			if ai.array {
				return mk(sapp("select", sapp("select", h.S, ai.base.S), ai.idx.S), es).withGo(ai.typ)
			}
			return sliceElem(e, st, ai.base, ai.idx, ai.typ)
		}
	}
	p := v.val(addr)
	return loadPtr(e, st, p, elem)
}

func (v *fnVC) store(addr ssa.Value, val *T, st *State, pos token.Pos) {
	e := v.e
	if ai, ok := v.addrs[addr]; ok {
		switch ai.kind {
		case "field":
			fs := e.sortOf(ai.typ)
			hn := fieldHeap(ai.owner, ai.field)
			h := st.get(hn, arrSort(sRef, fs))
			v.frameCheck("field:"+ai.owner+"."+ai.field, ai.base, pos, st)
			st.set(hn, sto(h, ai.base, val))
			return
		case "elem":
			es := e.sortOf(ai.typ)
			hn := elemHeap(es)
			h := st.get(hn, arrSort(sRef, arrSort(sI64, es)))
			var ref, idx string
			if ai.array {
				ref, idx = ai.base.S, ai.idx.S
			} else {
				ref, idx = sapp("sl_arr", ai.base.S), sapp("sidx", sapp("sl_off", ai.base.S), ai.idx.S)
			}
			v.frameCheck("elems", mk(ref, sRef), pos, st)
			inner := sapp("store", sapp("select", h.S, ref), idx, val.S)
			st.set(hn, mk(sapp("store", h.S, ref, inner), h.Sort))
			return
		}
	}
	p := v.val(addr)
	pt := addr.Type().Underlying().(*types.Pointer)
	v.safetyOb("nil-deref", pos, mk(sapp("not", sapp("=", p.S, "0")), sBool))
	v.frameCheck("cell", p, pos, st)
	v.storeWhole(p, pt.Elem(), val, st)
}

// frameCheck: a write to an object that existed at entry must be covered by
// the function's assigns clause (only when the contract declares one).
func (v *fnVC) frameCheck(what string, ref *T, pos token.Pos, st *State) {
	// an inlined closure body writes on behalf of the enclosing function
	rv := v
	if v.parent != nil && v.ct == nil {
		rv = v.root()
	}
	ct := rv.ct
	if ct == nil || !ct.HasAsg {
		return
	}
	for _, a := range ct.Assigns {
		if a == "*" {
			return
		}
	}
	// allowed: fresh objects, or objects named by an assigns location
	allowed := []*T{mk(sapp(">=", ref.S, v.entry.next().S), sBool)}
	x := rv.exFor(v.entry, v.entry, nil)
	for _, a := range ct.Assigns {
		loc, ok := rv.assignRef(x, a, what)
		if ok {
			allowed = append(allowed, mk(sapp("=", ref.S, loc.S), sBool))
		}
	}
	n := v.callOrd["frame"]
	v.callOrd["frame"] = n + 1
	v.oblige("frame", fmt.Sprintf("frame#%d", n), ct.Props, "write to "+what+" is inside `assigns`", v.pos(pos), v.reachNow(), tOr(allowed...), st)
}

// assignRef evaluates an assigns location to the reference of the written
// object, when that location is of the kind `what`.
func (v *fnVC) assignRef(x *Ex, loc string, what string) (*T, bool) {
	loc = strings.TrimSpace(loc)
	switch {
	case strings.HasPrefix(loc, "map(") && strings.HasSuffix(loc, ")"):
		if what != "map" {
			return nil, false
		}
		return x.Term(loc[4:len(loc)-1], nil), true
	case strings.HasPrefix(loc, "elems(") && strings.HasSuffix(loc, ")"):
		if what != "elems" {
			return nil, false
		}
		s := x.Term(loc[6:len(loc)-1], nil)
		if s.Sort.Kind == KSlice {
			return mk(sapp("sl_arr", s.S), sRef), true
		}
		return s, true
	case strings.HasPrefix(loc, "cell(") && strings.HasSuffix(loc, ")"):
		if what != "cell" {
			return nil, false
		}
		return x.Term(loc[5:len(loc)-1], nil), true
	}
	if i := strings.LastIndex(loc, "."); i > 0 && strings.HasPrefix(what, "field:") {
		base := x.Term(loc[:i], nil)
		if base.GoT != nil && structOf(base.GoT) != nil {
			if pt, ok := types.Unalias(base.GoT).Underlying().(*types.Pointer); ok {
				if "field:"+ownerName(pt.Elem())+"."+loc[i+1:] == what {
					return base, true
				}
			}
		}
	}
	return nil, false
}

// ---- operators ------------------------------------------------------------------------

func (v *fnVC) unop(i *ssa.UnOp, st *State) {
	e := v.e
	switch i.Op {
	case token.MUL:
		if _, isAddr := v.addrs[i.X]; !isAddr {
			p := v.val(i.X)
			v.safetyOb("nil-deref", i.Pos(), mk(sapp("not", sapp("=", p.S, "0")), sBool))
		}
		lst := st
		if g, _, ok := rootGlobal(i.X); ok && !v.w.globMutated[g] {
			// a package variable that is never reassigned: its value is the entry value
			lst = v.e.newState()
		}
		t := v.load(i.X, i.Type(), lst)
		r := v.bind(i, t)
		v.assumeWellFormed(r, st)
		if strings.HasPrefix(t.S, "(select H0$") && r.Sort.Kind == KRef {
			// read from a heap untouched since function entry at an object that existed at
			// entry: the value read existed at entry as well
			base := v.val(i.X)
			if ai, ok := v.addrs[i.X]; ok && ai.kind == "field" {
				base = ai.base
			}
			if base.Sort.Kind == KRef {
				v.e.assume(tImp(v.reachNow(), mk(sapp("=>", sapp("<", base.S, v.entry.next().S), sapp("<", r.S, v.entry.next().S)), sBool)))
			}
		}
	case token.NOT:
		v.bind(i, tNot(v.val(i.X)))
	case token.SUB:
		x := v.val(i.X)
		if x.Sort.Kind == KBV {
			v.bind(i, mk(sapp("bvneg", x.S), x.Sort))
		} else {
			v.unsupported("negation of %s", x.Sort.SMT())
			v.setVal(i, e.freshConst("neg", x.Sort))
		}
	case token.XOR:
		x := v.val(i.X)
		v.bind(i, mk(sapp("bvnot", x.S), x.Sort))
	case token.ARROW:
		v.notes = append(v.notes, "channel receive at "+v.pos(i.Pos())+" (value unconstrained, no interleaving semantics)")
		st.havocAll()
		t := e.freshConst("recv", e.sortOf(i.Type()))
		v.setVal(i, t)
	default:
		v.unsupported("unary op %s", i.Op)
		v.setVal(i, e.freshConst("unop", e.sortOf(i.Type())))
	}
}

func (v *fnVC) binop(i *ssa.BinOp, st *State) *T {
	e := v.e
	a, b := v.val(i.X), v.val(i.Y)
	rs := e.sortOf(i.Type())
	switch a.Sort.Kind {
	case KBool:
		switch i.Op {
		case token.EQL:
			return tEq(a, b)
		case token.NEQ:
			return tNot(tEq(a, b))
		case token.AND, token.LAND:
			return tAnd(a, b)
		case token.OR, token.LOR:
			return tOr(a, b)
		}
	case KBV:
		s := a.Sort.Signed
		if i.Op == token.SHL || i.Op == token.SHR {
			bb := b
			if b.Sort.W != a.Sort.W {
				// shift counts are non-negative; widen/narrow without sign
				if b.Sort.W < a.Sort.W {
					bb = mk(fmt.Sprintf("((_ zero_extend %d) %s)", a.Sort.W-b.Sort.W, b.S), a.Sort)
				} else {
					// saturate large counts
					big := sapp("bvuge", b.S, bvLit(int64(a.Sort.W), b.Sort.W))
					low := fmt.Sprintf("((_ extract %d 0) %s)", a.Sort.W-1, b.S)
					bb = mk(sapp("ite", big, bvLit(int64(a.Sort.W), a.Sort.W), low), a.Sort)
				}
			}
			if b.Sort.Signed {
				v.safetyOb("negative-shift", i.Pos(), mk(sapp("bvsge", b.S, bvLit(0, b.Sort.W)), sBool))
			}
			op := "bvshl"
			if i.Op == token.SHR {
				op = pick(s, "bvashr", "bvlshr")
			}
			return mk(sapp(op, a.S, bb.S), a.Sort)
		}
		var op string
		switch i.Op {
		case token.ADD:
			op = "bvadd"
		case token.SUB:
			op = "bvsub"
		case token.MUL:
			op = "bvmul"
		case token.QUO, token.REM:
			v.safetyOb("div-by-zero", i.Pos(), mk(sapp("not", sapp("=", b.S, bvLit(0, b.Sort.W))), sBool))
			if i.Op == token.QUO {
				op = pick(s, "bvsdiv", "bvudiv")
			} else {
				op = pick(s, "bvsrem", "bvurem")
			}
		case token.AND:
			op = "bvand"
		case token.OR:
			op = "bvor"
		case token.XOR:
			op = "bvxor"
		case token.AND_NOT:
			return mk(sapp("bvand", a.S, sapp("bvnot", b.S)), a.Sort)
		case token.EQL:
			return tEq(a, b)
		case token.NEQ:
			return tNot(tEq(a, b))
		case token.LSS:
			return mk(sapp(pick(s, "bvslt", "bvult"), a.S, b.S), sBool)
		case token.LEQ:
			return mk(sapp(pick(s, "bvsle", "bvule"), a.S, b.S), sBool)
		case token.GTR:
			return mk(sapp(pick(s, "bvsgt", "bvugt"), a.S, b.S), sBool)
		case token.GEQ:
			return mk(sapp(pick(s, "bvsge", "bvuge"), a.S, b.S), sBool)
		}
		if op != "" {
			r := mk(sapp(op, a.S, b.S), a.Sort)
			r.Op, r.Args = op, []*T{a, b}
			return r
		}
	case KStr:
		switch i.Op {
		case token.ADD:
			r := e.concat(a, b)
			r = e.define("cat", r)
			// (a Go string longer than 2^62 bytes cannot exist; the length equation is stated for the representable case)
			e.assume(mk(sapp("=>", sapp("and", sapp("bvult", sapp("slen", a.S), "#x2000000000000000"), sapp("bvult", sapp("slen", b.S), "#x2000000000000000")), sapp("=", sapp("slen", r.S), sapp("bvadd", sapp("slen", a.S), sapp("slen", b.S)))), sBool))
			e.assume(mk(fmt.Sprintf("(forall ((i (_ BitVec 64))) (! (=> (and (bvult (slen %s) #x2000000000000000) (bvult (slen %s) #x2000000000000000) (bvsle #x0000000000000000 i) (bvslt i (slen %s))) (= (sat %s i) (ite (bvslt i (slen %s)) (sat %s i) (sat %s (bvsub i (slen %s)))))) :pattern ((sat %s i))))", a.S, b.S, r.S, r.S, a.S, a.S, b.S, a.S, r.S), sBool))
			r.Op, r.Args = "sconcat", []*T{a, b}
			return r
		case token.EQL:
			return tEq(a, b)
		case token.NEQ:
			return tNot(tEq(a, b))
		case token.LSS, token.LEQ, token.GTR, token.GEQ:
			e.decl("slt", "(declare-fun slt (Str Str) Bool)")
			switch i.Op {
			case token.LSS:
				return mk(sapp("slt", a.S, b.S), sBool)
			case token.GTR:
				return mk(sapp("slt", b.S, a.S), sBool)
			case token.LEQ:
				return tNot(mk(sapp("slt", b.S, a.S), sBool))
			default:
				return tNot(mk(sapp("slt", a.S, b.S), sBool))
			}
		}
	case KRef, KIface, KFn, KOpaque, KStruct, KInt:
		switch i.Op {
		case token.EQL:
			return tEq(a, b)
		case token.NEQ:
			return tNot(tEq(a, b))
		}
	case KSlice:
		switch i.Op {
		case token.EQL:
			return eqTerm(a, b)
		case token.NEQ:
			return tNot(eqTerm(a, b))
		}
	case KF64:
		e.decl("fmul", "(declare-fun fmul (F64 F64) F64)")
		e.decl("fadd", "(declare-fun fadd (F64 F64) F64)")
		e.decl("flt", "(declare-fun flt (F64 F64) Bool)")
		switch i.Op {
		case token.MUL:
			r := mk(sapp("fmul", a.S, b.S), sF64)
			r.Op, r.Args = "fmul", []*T{a, b}
			return r
		case token.ADD:
			return mk(sapp("fadd", a.S, b.S), sF64)
		case token.LSS:
			return mk(sapp("flt", a.S, b.S), sBool)
		case token.GTR:
			return mk(sapp("flt", b.S, a.S), sBool)
		case token.EQL:
			return tEq(a, b)
		case token.NEQ:
			return tNot(tEq(a, b))
		}
	}
	v.unsupported("binary op %s on %s at %s", i.Op, a.Sort.SMT(), v.pos(i.Pos()))
	return e.freshConst("binop", rs)
}

func (v *fnVC) convert(i *ssa.Convert, st *State) {
	e := v.e
	x := v.val(i.X)
	to := e.sortOf(i.Type())
	switch {
	case x.Sort.Kind == KBV && to.Kind == KBV:
		v.bind(i, bvResize(x, to))
	case x.Sort.Kind == KStr && to.Kind == KStr:
		v.setVal(i, x.withGo(i.Type()))
	case x.Sort.Kind == KBV && to.Kind == KF64:
		e.decl("i2f", "(declare-fun i2f ((_ BitVec 64)) F64)")
		r := mk(sapp("i2f", intTo64(x).S), sF64)
		r.Op, r.Args = "i2f", []*T{x}
		v.setVal(i, r)
	case x.Sort.Kind == KF64 && to.Kind == KBV:
		e.decl("f2i", "(declare-fun f2i (F64) (_ BitVec 64))")
		r := v.bind(i, mk(sapp("f2i", x.S), to))
		// instance of the interval axiom for float64(n) * c with 0 < c <= 1 (see DESIGN §3.2)
		if x.Op == "fmul" && len(x.Args) == 2 && x.Args[0].Op == "i2f" && strings.HasPrefix(x.Args[1].Op, "fconst:") {
			c, _ := strconv.ParseFloat(strings.TrimPrefix(x.Args[1].Op, "fconst:"), 64)
			n := intTo64(x.Args[0].Args[0])
			if c == 0.1 {
				// n >= 0  ==>  n/10 - n/2^50 - 1 <= r <= n/10 + n/2^50 + 1
				lo := sapp("bvsub", sapp("bvsub", sapp("bvsdiv", n.S, bvLit(10, 64)), sapp("bvashr", n.S, bvLit(50, 64))), bvLit(1, 64))
				hi := sapp("bvadd", sapp("bvadd", sapp("bvsdiv", n.S, bvLit(10, 64)), sapp("bvashr", n.S, bvLit(50, 64))), bvLit(1, 64))
				e.assume(mk(sapp("=>", sapp("bvsge", n.S, bvLit(0, 64)), sapp("and", sapp("bvsle", lo, r.S), sapp("bvsle", r.S, hi), sapp("bvsge", r.S, bvLit(0, 64)))), sBool))
				e.uses["float64(n)*0.1 converted back to int64 is non-negative and lies in [n/10 - n/2^50 - 1, n/10 + n/2^50 + 1] for n >= 0 (machine float treated as a real interval)"] = true
			}
		}
	case x.Sort.Kind == KStr && to.Kind == KSlice:
		// []byte(s): fresh array holding the bytes of s
		a := v.newRef(i, st)
		e.decl("sbytes", "(declare-fun sbytes (Str) (Array (_ BitVec 64) (_ BitVec 8)))")
		et := i.Type().Underlying().(*types.Slice).Elem()
		es := e.sortOf(et)
		if es.Kind != KBV || es.W != 8 {
			v.unsupported("string to %s conversion", i.Type())
		}
		hn := elemHeap(es)
		h := st.get(hn, arrSort(sRef, arrSort(sI64, es)))
		st.set(hn, sto(h, a, mk(sapp("sbytes", x.S), arrSort(sI64, es))))
		sl := mk(sapp("mkSlice", a.S, bvLit(0, 64), sapp("slen", x.S), sapp("slen", x.S)), sSlice).withGo(i.Type())
		sl.Op, sl.Args = "bytesof", []*T{x}
		v.vals[i] = sl
		// the bytes of the new slice are the bytes of the string
		e.assume(mk(fmt.Sprintf("(forall ((i (_ BitVec 64))) (! (= (select (sbytes %s) i) (sat %s i)) :pattern ((select (sbytes %s) i))))", x.S, x.S, x.S), sBool))
		if _, ok := v.w.specs.Funcs["strOf"]; ok {
			// the byte-string view (strOf) of the converted slice is the string itself
			e.usedSpec["strOf"] = true
			e.assume(mk(sapp("=", sapp("spec$strOf", sapp("sbytes", x.S), bvLit(0, 64), sapp("slen", x.S)), x.S), sBool))
		}
	case x.Sort.Kind == KSlice && to.Kind == KStr:
		e.decl("bytes2s", "(declare-fun bytes2s ((Array (_ BitVec 64) (_ BitVec 8)) (_ BitVec 64) (_ BitVec 64)) Str)")
		h := st.get(elemHeap(sU8), arrSort(sRef, arrSort(sI64, sU8)))
		r := v.bind(i, mk(sapp("bytes2s", sapp("select", h.S, sapp("sl_arr", x.S)), sapp("sl_off", x.S), sapp("sl_len", x.S)), sStr))
		e.assume(mk(sapp("=", sapp("slen", r.S), sapp("sl_len", x.S)), sBool))
		// string(b) holds the bytes b has at the time of the conversion
		e.assume(mk(fmt.Sprintf("(forall ((i (_ BitVec 64))) (! (=> (and (bvsle #x0000000000000000 i) (bvslt i (sl_len %s))) (= (sat %s i) (select (select %s (sl_arr %s)) (bvadd (sl_off %s) i)))) :pattern ((sat %s i))))", x.S, r.S, h.S, x.S, x.S, r.S), sBool))
		if x.Op == "bytesof" {
			e.assume(tEq(r, x.Args[0]))
		}
		if _, ok := v.w.specs.Funcs["strOf"]; ok {
			// string(b) is the byte-string view of b
			e.usedSpec["strOf"] = true
			e.assume(mk(sapp("=", r.S, sapp("spec$strOf", sapp("select", h.S, sapp("sl_arr", x.S)), sapp("sl_off", x.S), sapp("sl_len", x.S))), sBool))
		}
	case x.Sort.Kind == KBV && to.Kind == KStr:
		// string(rune) / string(byte)
		if x.Sort.W == 8 {
			r := v.bind(i, mk(sapp("sbyte", x.S), sStr))
			e.assume(mk(sapp("and", sapp("=", sapp("slen", r.S), bvLit(1, 64)), sapp("=", sapp("sat", r.S, bvLit(0, 64)), x.S)), sBool))
		} else {
			r := v.bind(i, mk(sapp("srune", bvResize(x, sI32).S), sStr))
			x32 := bvResize(x, sI32)
			e.assume(mk(sapp("=>", sapp("and", sapp("bvsge", x32.S, bvLit(0, 32)), sapp("bvslt", x32.S, bvLit(128, 32))),
				sapp("and", sapp("=", sapp("slen", r.S), bvLit(1, 64)), sapp("=", sapp("sat", r.S, bvLit(0, 64)), fmt.Sprintf("((_ extract 7 0) %s)", x32.S)))), sBool))
		}
	default:
		if x.Sort.Same(to) {
			v.setVal(i, x.withGo(i.Type()))
			return
		}
		v.unsupported("conversion %s -> %s at %s", i.X.Type(), i.Type(), v.pos(i.Pos()))
		v.setVal(i, e.freshConst("conv", to))
	}
}

func (v *fnVC) typeAssert(i *ssa.TypeAssert, st *State) {
	e := v.e
	x := v.val(i.X)
	var ok, val *T
	if _, isIface := i.AssertedType.Underlying().(*types.Interface); isIface {
		ok = e.freshConst("taok", sBool)
		e.assume(tImp(ok, tNot(tEq(x, mk("nilIface", sIface)))))
		val = x
	} else {
		so := e.sortOf(i.AssertedType)
		key := so.KeyS()
		unf := "unI$" + key
		e.decl(unf, fmt.Sprintf("(declare-fun %s (Iface) %s)", unf, so.SMT()))
		tag := strconv.Itoa(e.typeTag(i.AssertedType))
		ok = mk(sapp("=", sapp("ityp", x.S), tag), sBool)
		val = mk(sapp(unf, x.S), so)
	}
	val = val.withGo(i.AssertedType)
	if i.CommaOk {
		zero := e.zero(i.AssertedType)
		t := &T{Sort: &Sort{Kind: KTuple, Elems: []*Sort{val.Sort, sBool}}, Tuple: []*T{tIte(ok, val, zero).withGo(i.AssertedType), ok}}
		v.vals[i] = t
		return
	}
	v.safetyOb("type-assertion", i.Pos(), ok)
	v.bind(i, val)
}

// ---- indexing, lookup, slicing ----------------------------------------------------------

func (v *fnVC) indexAddr(i *ssa.IndexAddr, st *State) {
	x := v.val(i.X)
	idx := intTo64(v.val(i.Index))
	switch xt := i.X.Type().Underlying().(type) {
	case *types.Slice:
		v.safetyOb("index-out-of-range", i.Pos(), mk(sapp("and", sapp("bvsle", bvLit(0, 64), idx.S), sapp("bvslt", idx.S, sapp("sl_len", x.S))), sBool))
		v.addrs[i] = &addrInfo{kind: "elem", base: x, idx: idx, typ: xt.Elem()}
		v.vals[i] = v.e.freshConst("eaddr", sRef).withGo(i.Type())
	case *types.Pointer:
		at := xt.Elem().Underlying().(*types.Array)
		v.safetyOb("nil-deref", i.Pos(), mk(sapp("not", sapp("=", x.S, "0")), sBool))
		v.safetyOb("index-out-of-range", i.Pos(), mk(sapp("and", sapp("bvsle", bvLit(0, 64), idx.S), sapp("bvslt", idx.S, bvLit(at.Len(), 64))), sBool))
		v.addrs[i] = &addrInfo{kind: "elem", base: x, idx: idx, typ: at.Elem(), array: true}
		v.vals[i] = v.e.freshConst("eaddr", sRef).withGo(i.Type())
	default:
		v.unsupported("IndexAddr on %s", i.X.Type())
		v.vals[i] = v.e.freshConst("eaddr", sRef).withGo(i.Type())
	}
}

func (v *fnVC) lookup(i *ssa.Lookup, st *State) {
	e := v.e
	x := v.val(i.X)
	switch xt := i.X.Type().Underlying().(type) {
	case *types.Map:
		k := v.val(i.Index)
		has := mapHas(e, st, x, k, xt)
		val := mapGet(e, st, x, k, xt)
		zero := e.zero(xt.Elem())
		r := tIte(has, val, zero).withGo(xt.Elem())
		if i.CommaOk {
			rv := e.define("lk", r).withGo(xt.Elem())
			hv := e.define("lkok", has)
			v.assumeWellFormed(rv, st)
			v.vals[i] = &T{Sort: &Sort{Kind: KTuple, Elems: []*Sort{r.Sort, sBool}}, Tuple: []*T{rv, hv}}
			return
		}
		rr := v.bind(i, r)
		v.assumeWellFormed(rr, st)
	case *types.Basic: // string
		idx := intTo64(v.val(i.Index))
		v.safetyOb("index-out-of-range", i.Pos(), mk(sapp("and", sapp("bvsle", bvLit(0, 64), idx.S), sapp("bvslt", idx.S, sapp("slen", x.S))), sBool))
		v.bind(i, mk(sapp("sat", x.S, idx.S), sU8))
	default:
		v.unsupported("lookup on %s", i.X.Type())
		v.setVal(i, e.freshConst("lk", e.sortOf(i.Type())))
	}
}

func (v *fnVC) sliceOp(i *ssa.Slice, st *State) {
	e := v.e
	x := v.val(i.X)
	var lo, hi, mx *T
	if i.Low != nil {
		lo = intTo64(v.val(i.Low))
	} else {
		lo = tBV(0, sI64)
	}
	if i.High != nil {
		hi = intTo64(v.val(i.High))
	}
	if i.Max != nil {
		mx = intTo64(v.val(i.Max))
	}
	switch xt := i.X.Type().Underlying().(type) {
	case *types.Basic: // string
		ln := mk(sapp("slen", x.S), sI64)
		if hi == nil {
			hi = ln
		}
		v.safetyOb("slice-bounds", i.Pos(), mk(sapp("and", sapp("bvsle", bvLit(0, 64), lo.S), sapp("bvsle", lo.S, hi.S), sapp("bvsle", hi.S, ln.S)), sBool))
		r := v.bind(i, mk(sapp("ssub", x.S, lo.S, hi.S), sStr))
		r.Op, r.Args = "ssub", []*T{x, lo, hi}
		e.assume(mk(sapp("=", sapp("slen", r.S), sapp("bvsub", hi.S, lo.S)), sBool))
		// whole-string slice is the string itself
		e.assume(mk(sapp("=>", sapp("and", sapp("=", lo.S, bvLit(0, 64)), sapp("=", hi.S, ln.S)), sapp("=", r.S, x.S)), sBool))
		e.assume(mk(fmt.Sprintf("(forall ((i (_ BitVec 64))) (! (=> (and (bvsle #x0000000000000000 i) (bvslt i (slen %s))) (= (sat %s i) (sat %s (bvadd %s i)))) :pattern ((sat %s i))))", r.S, r.S, x.S, lo.S, r.S), sBool))
	case *types.Slice:
		cp := mk(sapp("sl_cap", x.S), sI64)
		if hi == nil {
			hi = mk(sapp("sl_len", x.S), sI64)
		}
		if mx == nil {
			mx = cp
		}
		v.safetyOb("slice-bounds", i.Pos(), mk(sapp("and", sapp("bvsle", bvLit(0, 64), lo.S), sapp("bvsle", lo.S, hi.S), sapp("bvsle", hi.S, mx.S), sapp("bvsle", mx.S, cp.S)), sBool))
		r := mk(sapp("mkSlice", sapp("sl_arr", x.S), sapp("bvadd", sapp("sl_off", x.S), lo.S), sapp("bvsub", hi.S, lo.S), sapp("bvsub", mx.S, lo.S)), sSlice)
		// a nil slice stays nil when sliced [0:0]
		r = tIte(mk(sapp("=", sapp("sl_arr", x.S), "0"), sBool), mk("nilSlice", sSlice), r)
		v.bind(i, r)
	case *types.Pointer: // pointer to array
		at := xt.Elem().Underlying().(*types.Array)
		n := tBV(at.Len(), sI64)
		if hi == nil {
			hi = n
		}
		if mx == nil {
			mx = n
		}
		v.safetyOb("nil-deref", i.Pos(), mk(sapp("not", sapp("=", x.S, "0")), sBool))
		v.safetyOb("slice-bounds", i.Pos(), mk(sapp("and", sapp("bvsle", bvLit(0, 64), lo.S), sapp("bvsle", lo.S, hi.S), sapp("bvsle", hi.S, mx.S), sapp("bvsle", mx.S, n.S)), sBool))
		r := mk(sapp("mkSlice", x.S, lo.S, sapp("bvsub", hi.S, lo.S), sapp("bvsub", mx.S, lo.S)), sSlice)
		_ = xt
		v.bind(i, r)
	default:
		v.unsupported("slice of %s", i.X.Type())
		v.setVal(i, e.freshConst("slice", e.sortOf(i.Type())))
	}
}

func mapStore(e *Enc, st *State, m, k, val *T, mt *types.Map) {
	ks, vs := e.sortOf(mt.Key()), e.sortOf(mt.Elem())
	hn, vn, cn := mapHeap(ks, vs, "has"), mapHeap(ks, vs, "val"), mapHeap(ks, vs, "cnt")
	h := st.get(hn, arrSort(sRef, arrSort(ks, sBool)))
	vv := st.get(vn, arrSort(sRef, arrSort(ks, vs)))
	c := st.get(cn, arrSort(sRef, sI64))
	had := sapp("select", sapp("select", h.S, m.S), k.S)
	st.set(cn, mk(sapp("store", c.S, m.S, sapp("ite", had, sapp("select", c.S, m.S), sapp("bvadd", sapp("select", c.S, m.S), bvLit(1, 64)))), c.Sort))
	st.set(hn, mk(sapp("store", h.S, m.S, sapp("store", sapp("select", h.S, m.S), k.S, "true")), h.Sort))
	st.set(vn, mk(sapp("store", vv.S, m.S, sapp("store", sapp("select", vv.S, m.S), k.S, val.S)), vv.Sort))
}

func mapDelete(e *Enc, st *State, m, k *T, mt *types.Map) {
	ks, vs := e.sortOf(mt.Key()), e.sortOf(mt.Elem())
	hn, cn := mapHeap(ks, vs, "has"), mapHeap(ks, vs, "cnt")
	h := st.get(hn, arrSort(sRef, arrSort(ks, sBool)))
	c := st.get(cn, arrSort(sRef, sI64))
	had := sapp("select", sapp("select", h.S, m.S), k.S)
	st.set(cn, mk(sapp("store", c.S, m.S, sapp("ite", had, sapp("bvsub", sapp("select", c.S, m.S), bvLit(1, 64)), sapp("select", c.S, m.S))), c.Sort))
	st.set(hn, mk(sapp("store", h.S, m.S, sapp("store", sapp("select", h.S, m.S), k.S, "false")), h.Sort))
}

// ---- range / next (map and string iteration) ----------------------------------------------

func (v *fnVC) rangeInit(i *ssa.Range, st *State) {
	t := v.e.freshConst("iter$"+sanitize(i.Name()), sRef)
	v.vals[i] = t
	if mt, ok := i.X.Type().Underlying().(*types.Map); ok {
		// no key has been yielded yet
		ks := v.e.sortOf(mt.Key())
		st.set(visitedHeap(i), mk(fmt.Sprintf("((as const %s) false)", arrSort(ks, sBool).SMT()), arrSort(ks, sBool)))
		if v.rangeHas == nil {
			v.rangeHas = map[*ssa.Range]string{}
		}
		vs := v.e.sortOf(mt.Elem())
		v.rangeHas[i] = st.get(mapHeap(ks, vs, "has"), arrSort(sRef, arrSort(ks, sBool))).S
	} else {
		// range over a string: no byte index has been yielded yet
		st.set(visitedHeap(i), mk(fmt.Sprintf("((as const %s) false)", arrSort(sI64, sBool).SMT()), arrSort(sI64, sBool)))
	}
}

func (v *fnVC) next(i *ssa.Next, st *State) {
	e := v.e
	rng, _ := i.Iter.(*ssa.Range)
	if rng == nil {
		v.unsupported("next on non-range")
		return
	}
	x := v.val(rng.X)
	tt := i.Type().(*types.Tuple)
	ok := e.freshConst("nx$ok", sBool)
	if i.IsString {
		idx := e.freshConst("nx$idx", sI64)
		r := e.freshConst("nx$rune", sI32)
		// ok ==> 0 <= idx < len; ASCII byte decodes to itself
		e.assume(tImp(ok, mk(sapp("and", sapp("bvsle", bvLit(0, 64), idx.S), sapp("bvslt", idx.S, sapp("slen", x.S)),
			sapp("=>", sapp("bvult", sapp("sat", x.S, idx.S), bvLit(128, 8)), sapp("=", r.S, sapp("(_ zero_extend 24)", sapp("sat", x.S, idx.S)))),
			sapp("=>", sapp("bvuge", sapp("sat", x.S, idx.S), bvLit(128, 8)), sapp("bvsge", r.S, bvLit(128, 32))),
		), sBool)))
		v.vals[i] = &T{Sort: e.sortOf(tt), Tuple: []*T{ok, idx, r}}
		// ghost set of yielded byte indices: a yielded index is new; when the range is exhausted every
		// ASCII byte has been yielded on its own (a byte < 0x80 always starts a rune in Go's decoding,
		// also after a truncated sequence), and every other byte was yielded or belongs to the rune of a
		// yielded non-ASCII byte at most three positions before it.
		vs := arrSort(sI64, sBool)
		vis := st.get(visitedHeap(rng), vs)
		e.assume(tImp(ok, mk(sapp("not", sapp("select", vis.S, idx.S)), sBool)))
		e.fresh++
		qj := fmt.Sprintf("q$sj!%d", e.fresh)
		e.assume(tImp(tNot(ok), mk(fmt.Sprintf("(forall ((%s (_ BitVec 64))) (! (=> (and (bvsle #x0000000000000000 %s) (bvslt %s (slen %s))) (or (select %s %s) (and (bvuge (sat %s %s) #x80) (exists ((k (_ BitVec 64))) (and (bvslt k %s) (bvsle (bvsub %s #x0000000000000003) k) (bvsle #x0000000000000000 k) (select %s k) (bvuge (sat %s k) #x80)))))) :pattern ((sat %s %s))))",
			qj, qj, qj, x.S, vis.S, qj, x.S, qj, qj, qj, vis.S, x.S, x.S, qj), sBool)))
		st.set(visitedHeap(rng), e.define("visited", tIte(ok, mk(sapp("store", vis.S, idx.S, "true"), vs), vis)))
		e.uses["range over string: each iteration yields a not yet yielded in-range byte index; a byte < 0x80 decodes to itself, anything else to a rune >= 0x80; when the range ends every ASCII byte has been yielded and every other byte was yielded or belongs to the rune of a yielded non-ASCII byte just before it"] = true
		return
	}
	mt := rng.X.Type().Underlying().(*types.Map)
	k := e.freshConst("nx$key", e.sortOf(mt.Key())).withGo(mt.Key())
	has := mapHas(e, st, x, k, mt)
	val := mapGet(e, st, x, k, mt)
	vv := e.define("nx$val", val).withGo(mt.Elem())
	e.assume(tImp(ok, has))
	v.assumeWellFormed(vv, st)
	v.vals[i] = &T{Sort: e.sortOf(tt), Tuple: []*T{ok, k, vv}}
	// ghost set of yielded keys: a yielded key is new; when the range is exhausted every
	// key of the map has been yielded (the loop body is assumed not to insert into the map)
	vs := arrSort(k.Sort, sBool)
	vis := st.get(visitedHeap(rng), vs)
	e.assume(tImp(ok, mk(sapp("not", sapp("select", vis.S, k.S)), sBool)))
	// As long as no map of this type has been written since the range began, every yielded
	// key is still a key of the map.
	if hs := st.get(mapHeap(k.Sort, e.sortOf(mt.Elem()), "has"), arrSort(sRef, arrSort(k.Sort, sBool))).S; hs == v.rangeHas[rng] {
		e.fresh++
		qs := fmt.Sprintf("q$vs!%d", e.fresh)
		qst := mk(qs, k.Sort).withGo(mt.Key())
		e.assume(mk(fmt.Sprintf("(forall ((%s %s)) (! (=> (select %s %s) %s) :pattern ((select %s %s))))", qs, k.Sort.SMT(), vis.S, qs, mapHas(e, st, x, qst, mt).S, vis.S, qs), sBool))
	}
	e.fresh++
	qk := fmt.Sprintf("q$vk!%d", e.fresh)
	qt := mk(qk, k.Sort).withGo(mt.Key())
	e.assume(tImp(tNot(ok), mk(fmt.Sprintf("(forall ((%s %s)) (! (=> %s (select %s %s)) :pattern (%s)))", qk, k.Sort.SMT(), mapHas(e, st, x, qt, mt).S, vis.S, qk, mapHas(e, st, x, qt, mt).S), sBool)))
	st.set(visitedHeap(rng), e.define("visited", tIte(ok, mk(sapp("store", vis.S, k.S, "true"), vs), vis)))
	e.uses["range over map: each iteration yields a not yet yielded key present in the map with its value; when it ends every key has been yielded (the body is assumed not to insert into the map)"] = true
}
