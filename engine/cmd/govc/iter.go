package main

// Closures, calls through function values, and the iterator rule for
// range-over-func loops (consumer side) and for iterator bodies (producer side).
// See DESIGN.md §2.5.

import (
	"fmt"
	"go/types"

	"golang.org/x/tools/go/ssa"
)

type closureRec struct {
	term     *T
	fn       *ssa.Function
	bindings []*T
}

// root returns the function VC at the top of a chain of inlined closure bodies.
func (v *fnVC) root() *fnVC {
	for v.parent != nil {
		v = v.parent
	}
	return v
}

// recordClosure is called at every MakeClosure.
func (v *fnVC) recordClosure(i *ssa.MakeClosure, t *T, st *State) {
	fn := i.Fn.(*ssa.Function)
	var bs []*T
	for _, b := range i.Bindings {
		bs = append(bs, v.val(b))
	}
	r := v.root()
	r.closures = append(r.closures, closureRec{t, fn, bs})
	// an iterator body with a `yields` contract defines the ghost sequence of the closure value
	ct := v.w.specs.Contracts[funcKey(fn)]
	if ct == nil || ct.YieldN == "" {
		return
	}
	x := &Ex{enc: v.e, w: v.w, pkg: fn.Pkg.Pkg, vars: map[string]*T{}, lets: map[string]string{}, cur: st, old: st}
	for k, fv := range fn.FreeVars {
		if k < len(bs) {
			x.vars[fv.Name()] = bs[k].withGo(fv.Type())
		}
	}
	for _, l := range ct.Lets {
		x.lets[l.Name] = l.Expr
	}
	n := x.Term(ct.YieldN, sI64)
	v.e.assume(tImp(v.reachNow(), tEq(v.e.seqLen(t), n)))
	elemT := seqElemType(i.Type(), 0)
	if elemT == nil {
		return
	}
	xk := x.child()
	xk.qdepth++
	xk.vars["k"] = mk("q$k", sI64)
	el := xk.Term(ct.YieldE, v.e.sortOf(elemT))
	body := sapp("=", v.e.seqAt(t, mk("q$k", sI64), elemT, false).S, el.S)
	if ct.YieldE2 != "" {
		if e2T := seqElemType(i.Type(), 1); e2T != nil {
			el2 := xk.Term(ct.YieldE2, v.e.sortOf(e2T))
			body = sapp("and", body, sapp("=", v.e.seqAt(t, mk("q$k", sI64), e2T, true).S, el2.S))
		}
	}
	q := fmt.Sprintf("(forall ((q$k (_ BitVec 64))) (=> (and (bvsle #x0000000000000000 q$k) (bvslt q$k %s)) %s))", n.S, body)
	v.e.assume(tImp(v.reachNow(), mk(q, sBool)))
	v.e.uses["an iterator value yields the sequence stated by its body's `yields` contract, evaluated when the iterator is created (the data it reads is not modified before it runs)"] = true
}

// candidates: closures created so far (in this function or an enclosing one) with the given signature.
func (v *fnVC) candidates(sig *types.Signature) []closureRec {
	var out []closureRec
	for _, c := range v.root().closures {
		if types.Identical(c.fn.Signature, sig) {
			out = append(out, c)
		}
	}
	return out
}

// child builds the VC of a closure body inlined at the current program point.
func (v *fnVC) child(fn *ssa.Function, bindings []*T, args []*T, start *State, base *T) *fnVC {
	c := &fnVC{
		w: v.w, fn: fn, ct: nil, e: v.e,
		vals: map[ssa.Value]*T{}, addrs: map[ssa.Value]*addrInfo{},
		reach: map[int]*T{}, edge: map[[2]int]*T{}, exit: map[int]*State{},
		params: map[string]*T{}, dbg: map[string][]dbgRef{}, callOrd: map[string]int{},
		safety: v.safety, parent: v, parentBlk: v.curBlk.Index, startState: start, baseReach: base,
	}
	c.entry = v.entry
	c.computeOrder()
	c.computeOrdinals()
	for k, fv := range fn.FreeVars {
		if k < len(bindings) {
			c.vals[fv] = bindings[k].withGo(fv.Type())
			c.params[fv.Name()] = c.vals[fv]
		}
	}
	for k, p := range fn.Params {
		if k < len(args) {
			c.vals[p] = args[k].withGo(p.Type())
			c.params[p.Name()] = c.vals[p]
		}
	}
	return c
}

func (v *fnVC) runChild(c *fnVC) {
	saveBlk, saveInstr, saveEncBlk := v.curBlk, v.curInstr, v.e.curBlk
	for _, b := range c.order {
		c.block(b)
	}
	v.curBlk, v.curInstr, v.e.curBlk = saveBlk, saveInstr, saveEncBlk
	v.obls = append(v.obls, c.obls...)
	v.notes = append(v.notes, c.notes...)
	v.unsup = append(v.unsup, c.unsup...)
}

// ---- consumer rule: `for x := range seq { body }` -----------------------------------------------

func (v *fnVC) rfInvs(ord int) []*Clause {
	ct := v.ct
	if ct == nil {
		return nil
	}
	var out []*Clause
	for _, c := range ct.RFInvs {
		if c.Loop == ord {
			out = append(out, c)
		}
	}
	return out
}

func (v *fnVC) iterCall(in ssa.CallInstruction, q *T, yc *ssa.MakeClosure, st *State) {
	yfn := yc.Fn.(*ssa.Function)
	ord := v.iterOrd[in]
	invs := v.rfInvs(ord)
	v.e.uses["range-over-func: the iterator function itself writes nothing the caller can see; it only calls the loop body (yield)"] = true
	if len(invs) == 0 {
		v.havocFuncBody(yfn, st)
		v.notes = append(v.notes, "range-over-func loop at "+v.pos(in.Pos())+": loop body effects havocked (no iterator invariant)")
		return
	}
	e := v.e
	R := v.reachNow()
	c := in.Common()
	N := e.seqLen(q)
	blk := v.curBlk
	inv := func(state *State, iter *T, cl *Clause) *T {
		x := v.exFor(state, v.entry, map[string]*T{"iter": iter})
		x.resolve = v.resolver(blk, state, nil)
		return x.Bool(cl.Expr)
	}
	pos := v.pos(in.Pos())
	// 1. the invariant holds before the first element
	for k, cl := range invs {
		v.oblige("rf-entry", fmt.Sprintf("rangefunc%d.inv%s:entry", ord, clauseTag(cl, k)), v.propsOf(cl), cl.Expr, pos, R, inv(st, tBV(0, sI64), cl), st)
	}
	// 2. an arbitrary iteration preserves it
	hst := st.clone()
	v.havocFuncBody(yfn, hst)
	idx := e.freshConst("rf$i", sI64)
	e.assume(tImp(R, mk(sapp("and", sapp("bvsle", bvLit(0, 64), idx.S), sapp("bvslt", idx.S, N.S)), sBool)))
	var args []*T
	for w := 0; w < 2; w++ {
		et := seqElemType(c.Value.Type(), w)
		if et == nil {
			break
		}
		a := e.freshConst(fmt.Sprintf("rf$x%d", w), e.sortOf(et)).withGo(et)
		e.assume(tImp(R, tEq(a, e.seqAt(q, idx, et, w == 1))))
		v.assumeWellFormed(a, hst)
		args = append(args, a)
	}
	for _, cl := range invs {
		e.assume(tImp(R, inv(hst, idx, cl)))
	}
	var bs []*T
	for _, b := range yc.Bindings {
		bs = append(bs, v.val(b))
	}
	ch := v.child(yfn, bs, args, hst, R)
	early := false
	next := mk(sapp("bvadd", idx.S, bvLit(1, 64)), sI64)
	ch.onReturn = func(ri *ssa.Return, cst *State) {
		res := ch.val(ri.Results[0])
		if res.S != "true" {
			early = true
			return
		}
		for k, cl := range invs {
			x := v.exFor(cst, v.entry, map[string]*T{"iter": next})
			x.resolve = v.resolver(blk, cst, nil)
			ch.oblige("rf-preserved", fmt.Sprintf("rangefunc%d.inv%s:preserved", ord, clauseTag(cl, k)), v.propsOf(cl), cl.Expr, pos, ch.reachNow(), x.Bool(cl.Expr), cst)
		}
	}
	v.runChild(ch)
	// 3. afterwards: everything the body may write is unknown, the invariant holds for all elements
	pst := st.clone()
	v.havocFuncBody(yfn, pst)
	if early {
		v.notes = append(v.notes, "range-over-func loop at "+pos+" may leave early (break/return in the body): only the frame is known afterwards")
	} else {
		for _, cl := range invs {
			e.assume(tImp(R, inv(pst, N, cl)))
		}
	}
	*st = *pst
}

// ---- calls through function values ------------------------------------------------------------------

// dispatchCall handles f(args) where f is a function value: if closures with f's
// signature were created in this function, f must be one of them (obligation) and
// the call is each candidate's contract under the guard f == candidate.
func (v *fnVC) dispatchCall(in ssa.CallInstruction, fv *T, st *State) (*T, bool) {
	c := in.Common()
	cands := v.candidates(c.Signature())
	if len(cands) == 0 {
		return nil, false
	}
	R := v.reachNow()
	var isOne []*T
	for _, cd := range cands {
		isOne = append(isOne, tEq(fv, cd.term))
	}
	v.safetyOb("unknown-func-value", in.Pos(), tOr(isOne...))
	var args []*T
	for _, a := range c.Args {
		args = append(args, v.val(a))
	}
	var states []*State
	var results []*T
	for k, cd := range cands {
		ci := calleeInfo{fn: cd.fn, key: funcKey(cd.fn), sig: cd.fn.Signature}
		ci.ct = v.w.specs.Contracts[ci.key]
		ci.display = shortKey(ci.key)
		for _, f := range cd.fn.FreeVars {
			ci.names = append(ci.names, f.Name())
		}
		for _, p := range cd.fn.Params {
			ci.names = append(ci.names, p.Name())
		}
		all := append(append([]*T{}, cd.bindings...), args...)
		sk := st
		if len(cands) > 1 {
			sk = st.clone()
		}
		save := v.reachOverride
		v.reachOverride = tAnd(R, isOne[k])
		res := v.applyCall(in, ci, all, sk)
		v.reachOverride = save
		states = append(states, sk)
		results = append(results, res)
	}
	if len(cands) == 1 {
		return results[0], true
	}
	merged := v.e.newState()
	merged.blk = v.e.curBlk
	merged.parents = states
	merged.conds = isOne
	names := map[string]*Sort{}
	for _, s := range states {
		for k, t := range s.m {
			names[k] = t.Sort
		}
	}
	for _, n := range sortedKeys(names) {
		merged.get(n, names[n])
	}
	*st = *merged
	var out *T
	if results[0] != nil && results[0].Sort.Kind != KTuple {
		out = v.e.freshConst("dres", results[0].Sort).withGo(results[0].GoT)
		for k, r := range results {
			v.e.assume(tImp(tAnd(R, isOne[k]), tEq(out, r)))
		}
	} else {
		out = results[0]
	}
	return out, true
}

// ---- producer rule: the body of an iterator calls yield(x0), yield(x1), ... ---------------------------

const ghostYielded, ghostStopped = "G$yielded", "G$stopped"

func (v *fnVC) isYieldParam(x ssa.Value) bool {
	if v.ct == nil || v.ct.YieldN == "" {
		return false
	}
	p, ok := x.(*ssa.Parameter)
	return ok && len(v.fn.Params) > 0 && p == v.fn.Params[len(v.fn.Params)-1]
}

func (v *fnVC) producerInit(st *State) {
	st.set(ghostYielded, tBV(0, sI64))
	st.set(ghostStopped, tFalse())
}

// yieldCall: yield(x) inside an iterator body under a `yields COUNT :: ELEM` contract.
func (v *fnVC) yieldCall(in ssa.CallInstruction, st *State) *T {
	e := v.e
	R := v.reachNow()
	c := in.Common()
	cnt := st.get(ghostYielded, sI64)
	stopped := st.get(ghostStopped, sBool)
	x := v.exFor(st, v.entry, map[string]*T{"k": cnt, "yielded": cnt, "stopped": stopped})
	n := x.Term(v.ct.YieldN, sI64)
	pos := v.pos(in.Pos())
	ord := v.ordinal[in]
	v.oblige("yield", fmt.Sprintf("yield%d:not-after-stop", ord), v.ct.Props, "yield is not called after it returned false", pos, R, tNot(stopped), st)
	v.oblige("yield", fmt.Sprintf("yield%d:in-range", ord), v.ct.Props, "yielded < "+v.ct.YieldN, pos, R, mk(sapp("bvslt", cnt.S, n.S), sBool), st)
	a0 := v.val(c.Args[0])
	el := x.Term(v.ct.YieldE, a0.Sort)
	v.oblige("yield", fmt.Sprintf("yield%d:value", ord), v.ct.Props, "the value yielded is "+v.ct.YieldE+" at k = yielded", pos, R, tEq(a0, el), st)
	if v.ct.YieldE2 != "" && len(c.Args) > 1 {
		a1 := v.val(c.Args[1])
		el2 := x.Term(v.ct.YieldE2, a1.Sort)
		v.oblige("yield", fmt.Sprintf("yield%d:value2", ord), v.ct.Props, "the second value yielded is "+v.ct.YieldE2, pos, R, tEq(a1, el2), st)
	}
	res := e.freshConst("yres", sBool)
	st.set(ghostYielded, mk(sapp("bvadd", cnt.S, bvLit(1, 64)), sI64))
	st.set(ghostStopped, tOr(stopped, tNot(res)))
	e.uses["iterator bodies: the loop body run by yield does not modify the data the iterator reads"] = true
	return res
}

// producerReturn: at a return of an iterator body, either the consumer stopped it or everything was yielded.
func (v *fnVC) producerReturn(i *ssa.Return, st *State) {
	cnt := st.get(ghostYielded, sI64)
	stopped := st.get(ghostStopped, sBool)
	x := v.exFor(st, v.entry, map[string]*T{"yielded": cnt, "stopped": stopped})
	n := x.Term(v.ct.YieldN, sI64)
	v.oblige("yield", fmt.Sprintf("complete@ret%d", v.ordinal[i]), v.ct.Props, "all "+v.ct.YieldN+" values were yielded, or the consumer stopped the iteration", v.pos(i.Pos()), v.reachNow(), tOr(stopped, tEq(cnt, n)), st)
}
