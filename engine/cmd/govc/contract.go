package main

// Contract files: comment-only Go files whose `//@` lines carry the
// specification. See /verif/DESIGN.md §2.2 for the language.

import (
	"bufio"
	"fmt"
	"os"
	"path/filepath"
	"regexp"
	"strings"
)

type Clause struct {
	Kind  string // requires | ensures | invariant | assert
	Expr  string
	Name  string
	Props []string // overrides block props when non-empty
	Loop  int
	File  string
	Line  int
	Ghost bool // ghost update performed by the contract itself: assumed at call sites, not an obligation of implementers
	Callee string // callsite clauses: (suffix of) the callee's name
}

type Contract struct {
	Key      string // canonical function key
	Kind     string // func | extern | iface
	Pkg      string // package path of the contract file (func) — used to resolve short names
	ParamNm  []string
	Props    []string
	Safety   []string // properties that own the generated safety obligations
	Requires []*Clause
	Ensures  []*Clause
	Always   []*Clause // two-state invariants (entry state vs now) that must hold after every call made by the function
	Decrs    []*Clause // loop N decreases EXPR
	RetReqs  []*Clause // loop N return-requires EXPR
	ExitReqs []*Clause // loop N exit-requires EXPR
	CallReqs []*Clause // callsite CALLEE :: EXPR (Callee in Clause.Callee)
	Steps    []*Clause // guarantee of every single call made by the function (state before that call vs after it)
	Invs     []*Clause
	Lets     []letDef
	Assigns  []string // location expressions; "*" = everything
	HasAsg   bool
	Trusted  bool
	Pure     bool
	Fresh    bool // result is freshly allocated
	Effects  []string
	File     string
	Line     int
	NoSafety bool
	Reveal   []string
	Implements string // key of the interface contract this method must satisfy
	RFInvs     []*Clause // range-over-func loop invariants (Loop = ordinal of the iterator call)
	YieldN     string    // producer contract: number of values yielded ...
	YieldE     string    // ... and the k-th value (index variable k); second value for Seq2
	YieldE2    string
	Uses       []string // `use LEMMA(arg, ...)`: ground instances of proved lemmas assumed at every return
}

type letDef struct {
	Name string
	Expr string
}

type SpecFunc struct {
	Name    string
	Params  []specParam
	Result  string
	Body    string // "" = uninterpreted or raw
	Raw     bool   // declared by a raw smt block
	Opaque  bool   // uninterpreted in function VCs unless revealed; defined in lemma proofs
	RawName string
	File    string
	Line    int
}

type specParam struct{ Name, Type string }

type GhostVar struct {
	Name string
	Type string // for ghost heap: key type; value type
	Val  string
	Heap bool
}

type Axiom struct {
	Name   string
	Expr   string
	Pkg    string
	Lemma  bool     // proved by its own obligation (with the opaque definitions revealed)
	Props  []string // properties whose checks include the lemma's proof obligation
	Reveal []string
}

type Specs struct {
	Contracts map[string]*Contract
	Funcs     map[string]*SpecFunc
	Ghosts    map[string]*GhostVar
	Axioms    []*Axiom
	RawSMT    []string
	Consts    map[string]string // spec const name -> expr
	Order     []string
}

func newSpecs() *Specs {
	return &Specs{Contracts: map[string]*Contract{}, Funcs: map[string]*SpecFunc{}, Ghosts: map[string]*GhostVar{}, Consts: map[string]string{}}
}

var (
	reSpecFunc = regexp.MustCompile(`^spec\s+func\s+(\w+)\s*\(([^)]*)\)\s*([^=]+?)\s*(?:=\s*(.*))?$`)
	reNameTag  = regexp.MustCompile(`#\s*name:\s*([^\s]+)`)
	rePropsTag = regexp.MustCompile(`props:\s*([A-Za-z0-9, ]+)`)
)

var clauseKeywords = map[string]bool{
	"property": true, "requires": true, "ensures": true, "always": true, "step": true, "callsite": true, "assigns": true, "loop": true, "let": true,
	"trusted": true, "pure": true, "fresh": true, "effects": true, "safety": true, "nosafety": true,
	"implements": true, "use": true, "rangefunc": true, "yields": true, "spec": true, "ghost": true, "axiom": true, "lemma": true, "reveal": true, "smt": true, "func": true, "extern": true, "iface": true, "fnparam": true, "const": true, "end": true,
}

// parseContractFile reads every //@ line of a file.
func (sp *Specs) parseContractFile(path string, pkgPath string) error {
	f, err := os.Open(path)
	if err != nil {
		return err
	}
	defer f.Close()
	type line struct {
		text string
		n    int
	}
	var lines []line
	sc := bufio.NewScanner(f)
	sc.Buffer(make([]byte, 1<<20), 1<<20)
	n := 0
	for sc.Scan() {
		n++
		t := strings.TrimSpace(sc.Text())
		if !strings.HasPrefix(t, "//@") {
			continue
		}
		t = strings.TrimSpace(strings.TrimPrefix(t, "//@"))
		if t == "" || strings.HasPrefix(t, "//") {
			continue
		}
		first := strings.Fields(t)[0]
		if !clauseKeywords[first] && len(lines) > 0 {
			// continuation of the previous logical line
			lines[len(lines)-1].text += " " + t
			continue
		}
		lines = append(lines, line{t, n})
	}
	var cur *Contract
	var curLemma *Axiom
	for _, ln := range lines {
		t := ln.text
		fields := strings.Fields(t)
		kw := fields[0]
		rest := strings.TrimSpace(strings.TrimPrefix(t, kw))
		switch kw {
		case "smt":
			sp.RawSMT = append(sp.RawSMT, rest)
			cur = nil
		case "spec":
			cur = nil
			if strings.HasPrefix(rest, "const") {
				r := strings.TrimSpace(strings.TrimPrefix(rest, "const"))
				nm, ex, ok := strings.Cut(r, "=")
				if !ok {
					return fmt.Errorf("%s:%d: bad spec const", path, ln.n)
				}
				nf := strings.Fields(nm)
				sp.Consts[nf[0]] = strings.TrimSpace(ex)
				if len(nf) > 1 {
					sp.Consts[nf[0]] = nf[1] + "(" + strings.TrimSpace(ex) + ")"
				}
				continue
			}
			raw, opaque := false, false
			if i := strings.Index(t, "# smt"); i >= 0 {
				raw = true
				t = strings.TrimSpace(t[:i])
			}
			if i := strings.Index(t, "# opaque"); i >= 0 {
				opaque = true
				t = strings.TrimSpace(t[:i])
			}
			m := reSpecFunc.FindStringSubmatch(t)
			if m == nil {
				return fmt.Errorf("%s:%d: bad spec func: %s", path, ln.n, t)
			}
			sf := &SpecFunc{Name: m[1], Result: strings.TrimSpace(m[3]), Body: strings.TrimSpace(m[4]), Raw: raw, Opaque: opaque, File: path, Line: ln.n}
			for _, p := range splitTop(m[2], ',') {
				p = strings.TrimSpace(p)
				if p == "" {
					continue
				}
				pf := strings.SplitN(p, " ", 2)
				if len(pf) != 2 {
					return fmt.Errorf("%s:%d: bad spec param %q", path, ln.n, p)
				}
				sf.Params = append(sf.Params, specParam{pf[0], strings.TrimSpace(pf[1])})
			}
			sp.Funcs[sf.Name] = sf
		case "ghost":
			cur = nil
			// ghost var NAME TYPE | ghost heap NAME KEYTYPE VALTYPE
			if len(fields) >= 4 && fields[1] == "var" {
				sp.Ghosts[fields[2]] = &GhostVar{Name: fields[2], Type: strings.Join(fields[3:], " ")}
			} else if len(fields) >= 5 && fields[1] == "heap" {
				sp.Ghosts[fields[2]] = &GhostVar{Name: fields[2], Type: fields[3], Val: strings.Join(fields[4:], " "), Heap: true}
			} else {
				return fmt.Errorf("%s:%d: bad ghost decl", path, ln.n)
			}
		case "axiom", "lemma":
			cur = nil
			curLemma = nil
			nm, ex, ok := strings.Cut(rest, ":")
			if !ok {
				return fmt.Errorf("%s:%d: %s needs a name", path, ln.n, kw)
			}
			ax := &Axiom{Name: strings.TrimSpace(nm), Expr: strings.TrimSpace(ex), Pkg: pkgPath, Lemma: kw == "lemma"}
			sp.Axioms = append(sp.Axioms, ax)
			if ax.Lemma {
				curLemma = ax
			}
		case "func", "extern", "iface", "fnparam":
			curLemma = nil
			cur = &Contract{Kind: kw, Pkg: pkgPath, File: path, Line: ln.n}
			name := rest
			// optional explicit parameter names:  NAME(a, b, c)   (receiver first)
			if i := strings.LastIndex(name, "("); i > 0 && strings.HasSuffix(name, ")") && !strings.HasPrefix(name[i:], "(*") && i > strings.LastIndex(name, ").") {
				ps := name[i+1 : len(name)-1]
				name = strings.TrimSpace(name[:i])
				for _, p := range strings.Split(ps, ",") {
					if p = strings.TrimSpace(p); p != "" {
						cur.ParamNm = append(cur.ParamNm, p)
					}
				}
			}
			cur.Key = canonKey(kw, name, pkgPath)
			if old, dup := sp.Contracts[cur.Key]; dup {
				return fmt.Errorf("%s:%d: duplicate contract for %s (first at %s:%d)", path, ln.n, cur.Key, old.File, old.Line)
			}
			sp.Contracts[cur.Key] = cur
			sp.Order = append(sp.Order, cur.Key)
		case "end":
			cur = nil
		default:
			if cur == nil && curLemma != nil && (kw == "property" || kw == "reveal") {
				if kw == "property" {
					curLemma.Props = append(curLemma.Props, strings.Fields(rest)...)
				} else {
					curLemma.Reveal = append(curLemma.Reveal, strings.Fields(rest)...)
				}
				continue
			}
			if cur == nil {
				return fmt.Errorf("%s:%d: clause %q outside a contract block", path, ln.n, kw)
			}
			cl := &Clause{Kind: kw, File: path, Line: ln.n}
			body := rest
			if i := strings.Index(body, "#"); i >= 0 {
				tag := body[i:]
				body = strings.TrimSpace(body[:i])
				if m := reNameTag.FindStringSubmatch(tag); m != nil {
					cl.Name = m[1]
				}
				if strings.Contains(tag, "ghost-update") {
					cl.Ghost = true
				}
				if m := rePropsTag.FindStringSubmatch(tag); m != nil {
					for _, p := range strings.FieldsFunc(m[1], func(r rune) bool { return r == ',' || r == ' ' }) {
						cl.Props = append(cl.Props, p)
					}
				}
			}
			cl.Expr = body
			switch kw {
			case "property":
				cur.Props = append(cur.Props, strings.Fields(body)...)
			case "safety":
				cur.Safety = append(cur.Safety, strings.Fields(body)...)
			case "nosafety":
				cur.NoSafety = true
			case "requires":
				cur.Requires = append(cur.Requires, cl)
			case "ensures":
				cur.Ensures = append(cur.Ensures, cl)
			case "always":
				cur.Always = append(cur.Always, cl)
			case "callsite":
				nm, ex, ok := strings.Cut(body, "::")
				if !ok {
					return fmt.Errorf("%s:%d: expected `callsite CALLEE :: EXPR`", path, ln.n)
				}
				cl.Callee = strings.TrimSpace(nm)
				cl.Kind = "callsite"
				cl.Expr = strings.TrimSpace(ex)
				cur.CallReqs = append(cur.CallReqs, cl)
			case "step":
				cur.Steps = append(cur.Steps, cl)
			case "loop":
				// loop N invariant EXPR
				lf := strings.Fields(body)
				if len(lf) >= 3 && lf[1] == "return-requires" {
					fmt.Sscanf(lf[0], "%d", &cl.Loop)
					cl.Kind = "return-requires"
					cl.Expr = strings.TrimSpace(strings.SplitN(body, "return-requires", 2)[1])
					cur.RetReqs = append(cur.RetReqs, cl)
					break
				}
				if len(lf) >= 3 && lf[1] == "exit-requires" {
					// loop N exit-requires EXPR: leaving loop N from inside its body (break, return, goto) needs EXPR
					fmt.Sscanf(lf[0], "%d", &cl.Loop)
					cl.Kind = "exit-requires"
					cl.Expr = strings.TrimSpace(strings.SplitN(body, "exit-requires", 2)[1])
					cur.ExitReqs = append(cur.ExitReqs, cl)
					break
				}
				if len(lf) >= 3 && lf[1] == "decreases" {
					// loop N decreases EXPR (termination measure)
					fmt.Sscanf(lf[0], "%d", &cl.Loop)
					cl.Kind = "decreases"
					cl.Expr = strings.TrimSpace(strings.SplitN(body, "decreases", 2)[1])
					cur.Decrs = append(cur.Decrs, cl)
					break
				}
				if len(lf) < 3 || lf[1] != "invariant" {
					return fmt.Errorf("%s:%d: expected `loop N invariant EXPR` or `loop N decreases EXPR`", path, ln.n)
				}
				fmt.Sscanf(lf[0], "%d", &cl.Loop)
				cl.Kind = "invariant"
				cl.Expr = strings.TrimSpace(strings.SplitN(body, "invariant", 2)[1])
				cur.Invs = append(cur.Invs, cl)
			case "let":
				nm, ex, ok := strings.Cut(body, "=")
				if !ok {
					return fmt.Errorf("%s:%d: bad let", path, ln.n)
				}
				cur.Lets = append(cur.Lets, letDef{strings.TrimSpace(nm), strings.TrimSpace(ex)})
			case "assigns":
				cur.HasAsg = true
				if body != "nothing" {
					for _, a := range splitTop(body, ',') {
						cur.Assigns = append(cur.Assigns, strings.TrimSpace(a))
					}
				}
			case "rangefunc":
				// rangefunc N invariant EXPR   (variables: iter = elements processed so far)
				lf := strings.Fields(body)
				if len(lf) < 3 || lf[1] != "invariant" {
					return fmt.Errorf("%s:%d: expected `rangefunc N invariant EXPR`", path, ln.n)
				}
				fmt.Sscanf(lf[0], "%d", &cl.Loop)
				cl.Kind = "rfinv"
				cl.Expr = strings.TrimSpace(strings.SplitN(body, "invariant", 2)[1])
				cur.RFInvs = append(cur.RFInvs, cl)
			case "yields":
				// yields COUNT :: ELEM [:: ELEM2]     (index variable k)
				parts := strings.Split(body, "::")
				if len(parts) < 2 {
					return fmt.Errorf("%s:%d: expected `yields COUNT :: ELEM`", path, ln.n)
				}
				cur.YieldN, cur.YieldE = strings.TrimSpace(parts[0]), strings.TrimSpace(parts[1])
				if len(parts) > 2 {
					cur.YieldE2 = strings.TrimSpace(parts[2])
				}
			case "use":
				cur.Uses = append(cur.Uses, body)
			case "reveal":
				cur.Reveal = append(cur.Reveal, strings.Fields(body)...)
			case "implements":
				cur.Implements = canonKey("iface", body, pkgPath)
			case "trusted":
				cur.Trusted = true
			case "pure":
				cur.Pure = true
				cur.HasAsg = true
			case "fresh":
				cur.Fresh = true
			case "effects":
				cur.Effects = append(cur.Effects, strings.Fields(body)...)
			}
		}
	}
	return nil
}

// canonKey turns the name written in a contract into ssa's RelString(nil) form.
func canonKey(kind, name, pkgPath string) string {
	name = strings.TrimSpace(name)
	if kind == "iface" {
		// iface Type.Method  or  iface pkg/path.Type.Method
		if !strings.Contains(name, "/") && strings.Count(name, ".") == 1 {
			return "iface:" + pkgPath + "." + name
		}
		return "iface:" + name
	}
	if kind == "extern" {
		return name
	}
	if kind == "fnparam" {
		// fnparam FUNC.PARAM : contract assumed of a function-typed parameter
		i := strings.LastIndex(name, ".")
		return "fnparam:" + canonKey("func", name[:i], pkgPath) + name[i:]
	}
	// func: qualify with the package path of the contract file
	if strings.HasPrefix(name, "(") {
		// (*T).M or (T).M
		i := strings.Index(name, ")")
		recv := name[1:i]
		star := ""
		if strings.HasPrefix(recv, "*") {
			star = "*"
			recv = recv[1:]
		}
		return "(" + star + pkgPath + "." + recv + ")" + name[i+1:]
	}
	return pkgPath + "." + name
}

// splitTop splits s at sep occurring at nesting depth 0 (parens, brackets, braces, quotes).
func splitTop(s string, sep byte) []string {
	var out []string
	depth := 0
	inStr := false
	start := 0
	for i := 0; i < len(s); i++ {
		c := s[i]
		if inStr {
			if c == '\\' {
				i++
			} else if c == '"' {
				inStr = false
			}
			continue
		}
		switch c {
		case '"':
			inStr = true
		case '(', '[', '{':
			depth++
		case ')', ']', '}':
			depth--
		default:
			if c == sep && depth == 0 {
				out = append(out, s[start:i])
				start = i + 1
			}
		}
	}
	out = append(out, s[start:])
	return out
}

// loadSpecs reads stdlib specs from /verif/contracts/stdlib and repo
// contracts from <repo>/**/contracts_verif.go (falling back to the mirror in
// /verif/contracts/repo when the repo copy is missing or differs).
func loadSpecs(repo, verif string, notes *[]string) (*Specs, error) {
	sp := newSpecs()
	std, _ := filepath.Glob(filepath.Join(verif, "contracts", "stdlib", "*.go"))
	for _, f := range std {
		if err := sp.parseContractFile(f, ""); err != nil {
			return nil, err
		}
	}
	mirror := filepath.Join(verif, "contracts", "repo")
	err := filepath.Walk(mirror, func(p string, info os.FileInfo, err error) error {
		if err != nil || info.IsDir() || filepath.Base(p) != "contracts_verif.go" {
			return nil
		}
		rel, _ := filepath.Rel(mirror, p)
		repoCopy := filepath.Join(repo, rel)
		use := repoCopy
		mb, _ := os.ReadFile(p)
		rb, rerr := os.ReadFile(repoCopy)
		if rerr != nil {
			*notes = append(*notes, "contract file missing in repo, using /verif mirror: "+rel)
			use = p
		} else if string(mb) != string(rb) {
			*notes = append(*notes, "contract file in repo differs from /verif mirror, using the mirror: "+rel)
			use = p
		}
		dir := filepath.Dir(rel)
		pkgPath := "github.com/bartventer/httpcache"
		if dir != "." {
			pkgPath += "/" + filepath.ToSlash(dir)
		}
		return sp.parseContractFile(use, pkgPath)
	})
	if err != nil {
		return nil, err
	}
	for _, ct := range sp.Contracts {
		if ct.Implements != "" {
			if ict := sp.Contracts[ct.Implements]; ict != nil {
				ct.Props = unionProps(ct.Props, ict.Props)
			}
		}
	}
	return sp, nil
}
