package main

import (
	"encoding/json"
	"flag"
	"fmt"
	"go/types"
	"os"
	"path/filepath"
	"regexp"
	"sort"
	"strconv"
	"strings"
	"sync"
	"time"

	"golang.org/x/tools/go/ssa"
)

func main() {
	if len(os.Args) < 2 {
		fmt.Fprintln(os.Stderr, "usage: govc check|list|dump ...")
		os.Exit(2)
	}
	defer cleanupScratch()
	switch os.Args[1] {
	case "check":
		os.Exit(cmdCheck(os.Args[2:]))
	case "list":
		os.Exit(cmdList(os.Args[2:]))
	case "dump":
		os.Exit(cmdDump(os.Args[2:]))
	case "replay":
		os.Exit(cmdReplay(os.Args[2:]))
	case "version":
		fmt.Println("govc (httpcache contract verifier)")
		os.Exit(0)
	default:
		fmt.Fprintln(os.Stderr, "unknown command", os.Args[1])
		os.Exit(2)
	}
}

type checkOpts struct {
	repo, verif, prop, tier string
	timeout                 int
	seed                    int
	onlyFunc                string
	keep                    bool
	verbose                 bool
	noEvidence              bool
	noConformance           bool
	dump                    string
}

func cmdCheck(args []string) int {
	fs := flag.NewFlagSet("check", flag.ExitOnError)
	var o checkOpts
	fs.StringVar(&o.repo, "repo", "/repo", "repository root")
	fs.StringVar(&o.verif, "verif", "/verif", "verification root")
	fs.StringVar(&o.prop, "prop", "", "property id (empty = all obligations)")
	fs.StringVar(&o.tier, "tier", "quick", "quick|thorough")
	fs.IntVar(&o.timeout, "timeout", 0, "per-solver timeout in seconds (default 10 quick, 60 thorough)")
	fs.StringVar(&o.onlyFunc, "func", "", "only functions whose key contains this string")
	fs.BoolVar(&o.keep, "keep", false, "keep SMT files of failed obligations")
	fs.BoolVar(&o.verbose, "v", false, "verbose")
	fs.BoolVar(&o.noEvidence, "no-evidence", false, "do not write the evidence file")
	fs.BoolVar(&o.noConformance, "no-conformance", false, "skip the standard-library conformance harness")
	fs.StringVar(&o.dump, "dump", "", "write every query into this directory")
	fs.Parse(args)
	if s := os.Getenv("VERIF_SEED"); s != "" {
		o.seed, _ = strconv.Atoi(s)
	}
	if o.timeout == 0 {
		o.timeout = 20
		if o.tier == "thorough" {
			o.timeout = 90
		}
	}
	return runCheck(o)
}

type funcReport struct {
	Key     string
	Obls    []*Obligation
	Notes   []string
	Unsup   []string
	Err     string
	Uses    []string
	Lemmas  []string
	Trusted bool
}

func runCheck(o checkOpts) int {
	start := time.Now()
	w, err := loadWorld(o.repo, o.verif)
	if err != nil {
		fmt.Printf("UNDECIDED property=%s reason=load-failed: %v\n", o.prop, err)
		return 2
	}
	reach := w.reachableFromRoundTrip()
	// select the functions under contract that serve this property
	var keys []string
	for _, k := range w.specs.Order {
		ct := w.specs.Contracts[k]
		if ct.Kind != "func" || ct.Trusted {
			continue
		}
		if o.onlyFunc != "" && !strings.Contains(k, o.onlyFunc) {
			continue
		}
		if o.prop == "" || contractServes(ct, o.prop, reach[k]) {
			keys = append(keys, k)
		}
	}
	// Modular proofs rest on the postconditions of the functions called. Adding the postconditions of
	// every function the property's own functions call (transitively) to the property's check was tried
	// (GOVC_DEPPOSTS=1): it triples the checks rooted in RoundTrip and made slow obligations time out
	// under load, so it is off; functions in a property's data path are tagged for it instead, and C10
	// (whose safety proofs use postconditions of all kinds) includes the postconditions of its sweep.
	depPost := map[string]bool{}
	if o.prop != "" && o.onlyFunc == "" && os.Getenv("GOVC_DEPPOSTS") == "1" {
		var roots []*ssa.Function
		own := map[string]bool{}
		for _, k := range keys {
			own[k] = true
			if f := w.funcs[k]; f != nil {
				roots = append(roots, f)
			}
		}
		closure := w.reachableFrom(roots)
		for _, k := range w.specs.Order {
			ct := w.specs.Contracts[k]
			if ct.Kind != "func" || ct.Trusted || own[k] {
				continue
			}
			if f := w.funcs[k]; f != nil && closure[f.RelString(nil)] {
				depPost[k] = true
				keys = append(keys, k)
			}
		}
	}
	var reports []*funcReport
	var missing []string
	var mu sync.Mutex
	var wg sync.WaitGroup
	sem := make(chan struct{}, 8)
	for _, k := range keys {
		fn := w.funcs[k]
		ct := w.specs.Contracts[k]
		if fn == nil {
			missing = append(missing, k)
			continue
		}
		wg.Add(1)
		go func(k string, fn *ssa.Function, ct *Contract) {
			defer wg.Done()
			sem <- struct{}{}
			defer func() { <-sem }()
			sp := ct.Safety
			if len(sp) == 0 {
				if reach[k] {
					sp = []string{"C10"}
				} else {
					sp = ct.Props
				}
			}
			vc, err := w.verifyFunc(fn, ct, sp)
			r := &funcReport{Key: k}
			if vc != nil {
				r.Obls, r.Notes, r.Unsup = vc.obls, vc.notes, vc.unsup
				r.Uses = sortedKeys(vc.e.uses)
				r.Lemmas = vc.e.usesLemma
			}
			if err != nil {
				r.Err = err.Error()
			}
			mu.Lock()
			reports = append(reports, r)
			mu.Unlock()
		}(k, fn, ct)
	}
	wg.Wait()
	sort.Slice(reports, func(i, j int) bool { return reports[i].Key < reports[j].Key })

	// gather obligations of this property
	var obls []*Obligation
	var undecided []string
	for _, r := range reports {
		if r.Err != "" {
			undecided = append(undecided, r.Err)
		}
		for _, u := range r.Unsup {
			undecided = append(undecided, shortKey(r.Key)+": outside the supported subset: "+u)
		}
		// C10 (no panic): the safety obligations of a function are proved from the postconditions of
		// the functions it calls, whatever property those postconditions are tagged for; so the
		// postconditions of every function of the sweep are part of C10's check as well.
		sweptPost := depPost[r.Key]
		if ct := w.specs.Contracts[r.Key]; o.prop == "C10" && ct != nil && reach[r.Key] && len(ct.Safety) == 0 && !ct.Trusted {
			sweptPost = true
		}
		for _, ob := range r.Obls {
			if o.prop == "" || containsStr(ob.Props, o.prop) || (sweptPost && ob.Kind == "post") {
				if sweptPost && ob.Kind == "post" && !containsStr(ob.Props, o.prop) {
					ob.Props = append(append([]string{}, ob.Props...), o.prop)
				}
				obls = append(obls, ob)
			}
		}
	}
	for _, m := range missing {
		undecided = append(undecided, "function under contract not found in the tree: "+shortKey(m))
	}
	// lemmas: those tagged with the property, and those used by its functions
	lemmaWanted := map[string]bool{}
	for _, r := range reports {
		has := false
		for _, ob := range r.Obls {
			if o.prop == "" || containsStr(ob.Props, o.prop) {
				has = true
			}
		}
		if has {
			for _, l := range r.Lemmas {
				lemmaWanted[l] = true
			}
		}
	}
	for _, ax := range w.specs.Axioms {
		if !ax.Lemma {
			continue
		}
		if o.onlyFunc != "" && !strings.Contains("lemma/"+ax.Name, o.onlyFunc) && !lemmaWanted[ax.Name] {
			continue
		}
		if lemmaWanted[ax.Name] || containsStr(ax.Props, o.prop) || o.prop == "" {
			ob, err := w.lemmaObligation(ax, o.prop)
			if err != nil {
				undecided = append(undecided, err.Error())
				continue
			}
			obls = append(obls, ob)
		}
	}
	// stale replay artefacts of this property
	if old, _ := filepath.Glob(filepath.Join(o.verif, "evidence", "replay", sanitize(o.prop)+"-*")); o.prop != "" {
		for _, f := range old {
			os.Remove(f)
		}
	}
	// discharge
	needAgree := 1
	if o.tier == "thorough" {
		needAgree = 2
	}
	knownEarly := loadKnownFindings(filepath.Join(o.verif, "known_findings.txt"))
	isKnown := func(name string) bool {
		for _, k := range knownEarly {
			if k.Prop == o.prop && k.Obligation == name {
				return true
			}
		}
		return false
	}
	dsem := make(chan struct{}, 5)
	var dwg sync.WaitGroup
	for _, ob := range obls {
		if ob.Trivial {
			ob.Res = SolveResult{Status: "unsat", Solver: "trivial (goal is syntactically true)"}
			continue
		}
		dwg.Add(1)
		go func(ob *Obligation) {
			defer dwg.Done()
			dsem <- struct{}{}
			defer func() { <-dsem }()
			q := ob.enc.queryP(ob.seq, []string{"(assert " + ob.reach.S + ")", "(assert (not " + ob.goal.S + "))"}, ob.values, false, ob.keep, ob.Props)
			if o.dump != "" {
				os.MkdirAll(o.dump, 0o755)
				os.WriteFile(filepath.Join(o.dump, sanitize(ob.Name)+".smt2"), []byte(q), 0o644)
			}
			if isKnown(ob.Name) {
				// a recorded finding: one short attempt, it is expected not to discharge
				ob.Res = solve(ob.Name, q, 3, 1)
				return
			}
			ob.Res = solve(ob.Name, q, o.timeout, needAgree)
			for attempt := 0; attempt < 2 && ob.Res.Status == "error"; attempt++ {
				// transient solver start-up failures under load: try again
				time.Sleep(300 * time.Millisecond)
				ob.Res = solve(ob.Name, q, o.timeout, needAgree)
			}
			if ob.Res.Status != "unsat" && (ob.Res.Status == "timeout" || ob.Res.Status == "unknown") && strings.HasPrefix(ob.goal.S, "(=> ") {
				// An implication whose antecedent cannot hold on this path is discharged by refuting the
				// antecedent alone: a smaller goal that does not bring the terms of the conclusion (and the
				// lemma instances they trigger) into the query. Sound: fewer conclusions to prove, same facts.
				if ante := firstSexp(ob.goal.S[4:]); ante != "" {
					qa := ob.enc.queryP(ob.seq, []string{"(assert " + ob.reach.S + ")", "(assert " + ante + ")"}, nil, false, ob.keep, ob.Props)
					if ra := solve(ob.Name+".antecedent", qa, o.timeout, needAgree); ra.Status == "unsat" {
						ra.Solver += " (antecedent refuted on this path)"
						ob.Res = ra
					}
				}
			}
			if ob.Res.Status != "unsat" && (ob.Res.Status == "timeout" || ob.Res.Status == "unknown") {
				// one retry with the larger portfolio (extra z3 seeds) before reporting: quick 8x the
				// timeout, thorough 2x and still two agreeing instances
				if o.timeout < 60 {
					ob.Res = solveRetry(ob.Name, q, o.timeout*8, 1)
				} else {
					ob.Res = solveRetry(ob.Name, q, o.timeout*2, needAgree)
				}
			}
			if ob.Res.Status != "unsat" && (o.keep || true) {
				dir := filepath.Join(o.verif, "evidence", "replay")
				os.MkdirAll(dir, 0o755)
				os.WriteFile(filepath.Join(dir, sanitize(o.prop+"-"+ob.Name)+".smt2"), []byte(q), 0o644)
			}
		}(ob)
	}
	dwg.Wait()

	// vacuity: the preconditions (and everything assumed up to each return) must be satisfiable
	var vacuous []string
	vacN := 0
	if o.onlyFunc == "" || true {
		vres := w.vacuityChecks(reports, o)
		vacN = vres.n
		vacuous = vres.bad
		uncoveredAntecedents = vres.uncovered
	}

	known := loadKnownFindings(filepath.Join(o.verif, "known_findings.txt"))
	return report(o, w, reports, obls, undecided, vacuous, vacN, known, time.Since(start), reach)
}

func contractServes(ct *Contract, prop string, reachable bool) bool {
	if containsStr(ct.Props, prop) || containsStr(ct.Safety, prop) {
		return true
	}
	for _, l := range [][]*Clause{ct.Requires, ct.Ensures, ct.Invs, ct.Always, ct.Steps, ct.Decrs, ct.RetReqs, ct.ExitReqs, ct.CallReqs} {
		for _, c := range l {
			if containsStr(c.Props, prop) {
				return true
			}
		}
	}
	if prop == "C10" && reachable && len(ct.Safety) == 0 {
		return true
	}
	return false
}

// reachableFromRoundTrip: static call graph closure (static calls, closures, function values).
func (w *World) reachableFromRoundTrip() map[string]bool {
	var roots []*ssa.Function
	for k, f := range w.funcs {
		if strings.HasSuffix(k, "transport).RoundTrip") {
			roots = append(roots, f)
		}
	}
	return w.reachableFrom(roots)
}

// reachableFrom: static call graph closure from the given functions.
func (w *World) reachableFrom(roots []*ssa.Function) map[string]bool {
	seen := map[string]bool{}
	var visit func(f *ssa.Function)
	visit = func(f *ssa.Function) {
		if f == nil || f.Blocks == nil {
			return
		}
		k := f.RelString(nil)
		if seen[k] {
			return
		}
		seen[k] = true
		for _, b := range f.Blocks {
			for _, in := range b.Instrs {
				for _, op := range in.Operands(nil) {
					if op == nil || *op == nil {
						continue
					}
					switch x := (*op).(type) {
					case *ssa.Function:
						visit(x)
					case *ssa.MakeClosure:
						visit(x.Fn.(*ssa.Function))
					}
				}
				// interface invokes: every repo method with that name
				if ci, ok := in.(ssa.CallInstruction); ok && ci.Common().IsInvoke() {
					name := ci.Common().Method.Name()
					for k2, f2 := range w.funcs {
						if strings.HasSuffix(k2, ")."+name) && f2.Signature.Recv() != nil {
							visit(f2)
						}
					}
				}
			}
		}
		for _, a := range f.AnonFuncs {
			visit(a)
		}
	}
	for _, f := range roots {
		visit(f)
	}
	return seen
}

// ---- vacuity ---------------------------------------------------------------------------------

type vacResult struct {
	n         int
	bad       []string
	uncovered []string // ensures-antecedents that hold at no return (thorough tier, informational)
}

func (w *World) vacuityChecks(reports []*funcReport, o checkOpts) vacResult {
	var res vacResult
	var mu sync.Mutex
	var wg sync.WaitGroup
	sem := make(chan struct{}, 5)
	for _, r := range reports {
		if len(r.Obls) == 0 {
			continue
		}
		// one check per function: the last obligation's context with its reach asserted must be satisfiable
		// (contradictory requires / assumed contracts would make every obligation pass).
		byReach := map[string]*Obligation{}
		for _, ob := range r.Obls {
			if ob.Kind == "post" || ob.Kind == "inv-entry" {
				byReach[ob.reach.S] = ob
			}
		}
		var reps []*Obligation
		for _, k := range sortedKeys(byReach) {
			reps = append(reps, byReach[k])
		}
		if o.tier != "thorough" && len(reps) > 2 {
			reps = reps[:2]
		}
		// a function's context is vacuous only if NONE of its probed points is satisfiable
		// (a single infeasible return is dead code, not a contradiction)
		total := len(reps)
		unsatCount := new(int)
		fname := r.Key
		for _, ob := range reps {
			wg.Add(1)
			go func(ob *Obligation) {
				defer wg.Done()
				sem <- struct{}{}
				defer func() { <-sem }()
				q := ob.enc.queryF(ob.seq, []string{"(assert " + ob.reach.S + ")"}, nil, true, ob.keep)
				vt := 2
				if o.tier == "thorough" {
					vt = 10
				}
				if d := os.Getenv("GOVC_DUMPVAC"); d != "" {
					os.MkdirAll(d, 0o755)
					os.WriteFile(filepath.Join(d, sanitize("vac-"+ob.Name)+".smt2"), []byte(q), 0o644)
				}
				sr := vacSolve("vac-"+ob.Name, q, vt)
				mu.Lock()
				res.n++
				if sr.Status == "unsat" {
					*unsatCount++
					if *unsatCount == total {
						res.bad = append(res.bad, shortKey(fname)+" (every probed program point is unreachable under the assumed contracts)")
					}
				}
				mu.Unlock()
			}(ob)
		}
	}
	wg.Wait()
	sort.Strings(res.bad)
	// covers (thorough tier): an `ensures A ==> B` whose antecedent A can hold at no return of the
	// function proves nothing; such clauses are listed (informational: an error branch that a
	// function never takes is a legitimate reason).
	if o.tier == "thorough" {
		type key struct{ fn, clause string }
		covered := map[key]bool{}
		seen := map[key]bool{}
		var cmu sync.Mutex
		var cwg sync.WaitGroup
		for _, r := range reports {
			for _, ob := range r.Obls {
				if ob.Kind != "post" || (o.prop != "" && !containsStr(ob.Props, o.prop)) {
					continue
				}
				k := key{r.Key, ob.Clause}
				if !strings.HasPrefix(ob.goal.S, "(=> ") {
					// at this return the antecedent folded to true (or the clause is no implication)
					cmu.Lock()
					covered[k] = true
					cmu.Unlock()
					continue
				}
				ante := firstSexp(ob.goal.S[4:])
				if ante == "" {
					continue
				}
				seen[k] = true
				cwg.Add(1)
				go func(ob *Obligation, k key, ante string) {
					defer cwg.Done()
					sem <- struct{}{}
					defer func() { <-sem }()
					q := ob.enc.queryF(ob.seq, []string{"(assert " + ob.reach.S + ")", "(assert " + ante + ")"}, nil, true, ob.keep)
					sr := vacSolve("cover-"+ob.Name, q, 5)
					cmu.Lock()
					if sr.Status != "unsat" {
						covered[k] = true
					}
					cmu.Unlock()
				}(ob, k, ante)
			}
		}
		cwg.Wait()
		for k := range seen {
			if !covered[k] {
				res.uncovered = append(res.uncovered, shortKey(k.fn)+": antecedent of `"+k.clause+"` holds at no return")
			}
		}
		sort.Strings(res.uncovered)
	}
	return res
}

// firstSexp returns the first s-expression (or atom) of s.
func firstSexp(s string) string {
	s = strings.TrimLeft(s, " ")
	if s == "" {
		return ""
	}
	if s[0] != '(' {
		if i := strings.IndexAny(s, " )"); i > 0 {
			return s[:i]
		}
		return s
	}
	depth := 0
	for i := 0; i < len(s); i++ {
		switch s[i] {
		case '(':
			depth++
		case ')':
			depth--
			if depth == 0 {
				return s[:i+1]
			}
		}
	}
	return ""
}

// ---- known findings ----------------------------------------------------------------------------

type knownFinding struct {
	Prop       string
	Obligation string
	What       string
}

var reFinding = regexp.MustCompile(`^finding:\s*property=(\S+)\s+obligation=(\S+)\s*(.*)$`)

func loadKnownFindings(path string) []knownFinding {
	b, err := os.ReadFile(path)
	if err != nil {
		return nil
	}
	var out []knownFinding
	for _, l := range strings.Split(string(b), "\n") {
		l = strings.TrimSpace(l)
		if m := reFinding.FindStringSubmatch(l); m != nil {
			out = append(out, knownFinding{m[1], m[2], m[3]})
		}
	}
	return out
}

// ---- reporting ----------------------------------------------------------------------------------

type oblJSON struct {
	Cached  bool    `json:"from_query_cache,omitempty"`
	Name    string  `json:"name"`
	Kind    string  `json:"kind"`
	Clause  string  `json:"clause,omitempty"`
	Pos     string  `json:"pos,omitempty"`
	Result  string  `json:"result"`
	Solver  string  `json:"solver,omitempty"`
	Seconds float64 `json:"seconds"`
}

var uncoveredAntecedents []string

func report(o checkOpts, w *World, reports []*funcReport, obls []*Obligation, undecided, vacuous []string, vacN int, known []knownFinding, wall time.Duration, reach map[string]bool) int {
	exit := 0
	var failed, knownHit []*Obligation
	discharged := 0
	solverSecs := 0.0
	bySolver := map[string]int{}
	var list []oblJSON
	for _, ob := range obls {
		solverSecs += ob.Res.Seconds
		list = append(list, oblJSON{ob.Res.Cached, ob.Name, ob.Kind, ob.Clause, ob.Pos, ob.Res.Status, ob.Res.Solver, round3(ob.Res.Seconds)})
		if ob.Res.Status == "unsat" {
			discharged++
			bySolver[strings.Fields(ob.Res.Solver + " ?")[0]]++
			continue
		}
		isKnown := false
		for _, k := range known {
			if k.Prop == o.prop && k.Obligation == ob.Name {
				isKnown = true
				fmt.Printf("KNOWN-FINDING: property=%s %s (%s)\n", o.prop, k.What, ob.Name)
			}
		}
		if isKnown {
			knownHit = append(knownHit, ob)
		} else {
			failed = append(failed, ob)
		}
	}
	replayDir := filepath.Join(o.verif, "evidence", "replay")
	os.MkdirAll(replayDir, 0o755)
	for _, ob := range failed {
		path := filepath.Join(replayDir, sanitize(o.prop+"-"+ob.Name)+".json")
		rp := buildReplay(o, w, ob)
		b, _ := json.MarshalIndent(rp, "", " ")
		os.WriteFile(path, b, 0o644)
		suffix := ""
		if !rp.Reproduced {
			suffix = " no-failing-input-found"
		}
		fmt.Printf("VIOLATION property=%s replay=%s obligation=%s result=%s%s\n", o.prop, path, ob.Name, ob.Res.Status, suffix)
		exit = 1
	}
	for _, u := range uncoveredAntecedents {
		// informational: does not change the exit status
		fmt.Printf("COVER property=%s %s\n", o.prop, u)
	}
	if len(vacuous) > 0 {
		for _, vname := range vacuous {
			fmt.Printf("VACUOUS property=%s context-unsatisfiable-at=%s\n", o.prop, vname)
		}
		if exit == 0 {
			exit = 2
		}
	}
	if len(undecided) > 0 {
		for _, u := range undecided {
			fmt.Printf("UNDECIDED property=%s %s\n", o.prop, u)
		}
		if exit == 0 {
			exit = 2
		}
	}
	if len(obls) == 0 {
		fmt.Printf("UNDECIDED property=%s no obligations were generated\n", o.prop)
		if exit == 0 {
			exit = 2
		}
	}
	// registered minimum number of obligations (vacuity guard a)
	if min := registeredMinimum(o.verif, o.prop); min > 0 && len(obls) < min && o.onlyFunc == "" {
		fmt.Printf("UNDECIDED property=%s only %d obligations generated, %d registered\n", o.prop, len(obls), min)
		if exit == 0 {
			exit = 2
		}
	}

	// evidence
	usesSet := map[string]bool{}
	var fuc []string
	var notes []string
	for _, r := range reports {
		has := false
		for _, ob := range r.Obls {
			if o.prop == "" || containsStr(ob.Props, o.prop) {
				has = true
			}
		}
		if !has {
			continue
		}
		fuc = append(fuc, shortKey(r.Key))
		for _, u := range r.Uses {
			usesSet[u] = true
		}
		for _, n := range r.Notes {
			notes = append(notes, shortKey(r.Key)+": "+n)
		}
	}
	trusted := sortedKeys(usesSet)
	var samples []any
	for i, ob := range obls {
		if i%(len(obls)/5+1) == 0 && len(samples) < 6 {
			samples = append(samples, map[string]any{"obligation": ob.Name, "kind": ob.Kind, "clause": ob.Clause, "at": ob.Pos, "result": ob.Res.Status, "solver": ob.Res.Solver})
		}
	}
	var kf []string
	for _, ob := range knownHit {
		kf = append(kf, ob.Name)
	}
	var uncovered []string
	if o.prop == "C10" {
		for k := range reach {
			if isRepoKey(k) && w.specs.Contracts[k] == nil && !strings.Contains(k, "Mock") {
				uncovered = append(uncovered, shortKey(k))
			}
		}
		sort.Strings(uncovered)
	}
	assumptions := append([]string{}, trusted...)
	assumptions = append(assumptions,
		"Go int/int64/uint64/time.Duration are 64-bit bit-vectors with wrap-around (machine arithmetic is modelled, not idealised)",
		"SSA is built by golang.org/x/tools v0.50.0 go/ssa (go1.26.8) from the current working tree; the translation from SSA to SMT (this engine) is trusted",
		"goroutines, channels and select have no interleaving semantics in the generator",
		"termination is proved only for explicit for-loops under contract (loop N decreases); range loops terminate by construction; calls into dependencies are assumed to return",
		"the repository's tests run under go1.25 while the engine type-checks with go1.26.8; behaviour of the standard-library functions under assumed contracts is taken to be the same",
	)
	for _, n := range w.notes {
		assumptions = append(assumptions, n)
	}
	standins := []any{}
	if o.onlyFunc == "" {
		for _, si := range runStandins(o) {
			standins = append(standins, si)
			if si.Failures > 0 || si.Error != "" {
				path := filepath.Join(replayDir, sanitize(o.prop+"-standin-"+si.Name)+".json")
				b, _ := json.MarshalIndent(si, "", " ")
				os.WriteFile(path, b, 0o644)
				if si.Failures > 0 {
					fmt.Printf("VIOLATION property=%s replay=%s bounded-stand-in=%s failing-cases=%d of %d (inputs listed in the replay file)\n", o.prop, path, si.Name, si.Failures, si.Cases)
					exit = 1
				} else {
					fmt.Printf("UNDECIDED property=%s bounded stand-in %s did not run: %s\n", o.prop, si.Name, si.Error)
					if exit == 0 {
						exit = 2
					}
				}
			}
		}
	}
	var conformance any
	if o.onlyFunc == "" && !o.noConformance {
		ci := runConformance(o)
		conformance = ci
		if len(ci.Failed) > 0 || ci.Error != "" {
			what := "did not run: " + ci.Error
			if len(ci.Failed) > 0 {
				what = "contradicts an assumed contract: " + strings.Join(ci.Failed, "; ")
			}
			fmt.Printf("UNDECIDED property=%s standard-library conformance harness %s\n", o.prop, truncate(what, 600))
			if exit == 0 {
				exit = 2
			}
		}
	}
	cov := map[string]any{
		"obligations":              len(obls) - len(knownHit),
		"discharged":               discharged,
		"checker_cmd":              fmt.Sprintf("./check %s %s  (govc: go/ssa VC generator; solvers raced per obligation: z3 4.8.12, z3-new 5.1.0, cvc5 1.0.3; timeout %ds)", o.prop, o.tier, o.timeout),
		"trusted_base":             trusted,
		"functions_under_contract": fuc,
		"per_obligation":           list,
		"discharged_by_backend":    bySolver,
		"solver_seconds":           round3(solverSecs),
		"samples":                  samples,
		"known_findings_matched":   kf,
		"failed_obligations":       namesOf(failed),
		"undecided":                undecided,
		"vacuity_checks":           vacN,
		"vacuous_contexts":         vacuous,
		"generator_notes":          notes,
		"bounded_standins":         standins,
		"stdlib_conformance":       conformance,
		"antecedents_never_true":   append([]string{}, uncoveredAntecedents...),
	}
	if uncovered != nil {
		cov["reachable_functions_without_contract"] = uncovered
	}
	ev := map[string]any{
		"property_id": o.prop,
		"tier":        o.tier,
		"seed":        o.seed,
		"level":       "proof",
		"coverage":    cov,
		"assumptions": assumptions,
		"wall_s":      round3(wall.Seconds()),
		"violations":  len(failed),
	}
	if !o.noEvidence && o.prop != "" && o.onlyFunc == "" {
		os.MkdirAll(filepath.Join(o.verif, "evidence"), 0o755)
		b, _ := json.MarshalIndent(ev, "", " ")
		os.WriteFile(filepath.Join(o.verif, "evidence", o.prop+".json"), b, 0o644)
	}
	fmt.Printf("property=%s tier=%s functions=%d obligations=%d discharged=%d failed=%d known=%d undecided=%d vacuity=%d wall=%.1fs\n",
		o.prop, o.tier, len(fuc), len(obls), discharged, len(failed), len(knownHit), len(undecided), vacN, wall.Seconds())
	if o.verbose {
		for _, ob := range obls {
			fmt.Printf("  %-8s %-7s %6.2fs %-22s %s\n", ob.Kind, ob.Res.Status, ob.Res.Seconds, strings.Fields(ob.Res.Solver + " -")[0], ob.Name)
		}
		for _, n := range notes {
			fmt.Println("  note:", n)
		}
	}
	return exit
}

func isRepoKey(k string) bool { return strings.Contains(k, "github.com/bartventer/httpcache") }

func namesOf(l []*Obligation) []string {
	out := []string{}
	for _, o := range l {
		out = append(out, o.Name)
	}
	return out
}

func round3(f float64) float64 { return float64(int(f*1000+0.5)) / 1000 }

func registeredMinimum(verif, prop string) int {
	b, err := os.ReadFile(filepath.Join(verif, "registered_obligations.json"))
	if err != nil {
		return 0
	}
	var m map[string]int
	if json.Unmarshal(b, &m) != nil {
		return 0
	}
	return m[prop]
}

// ---- list / dump ---------------------------------------------------------------------------------

func cmdList(args []string) int {
	fs := flag.NewFlagSet("list", flag.ExitOnError)
	repo := fs.String("repo", "/repo", "")
	verif := fs.String("verif", "/verif", "")
	fs.Parse(args)
	w, err := loadWorld(*repo, *verif)
	if err != nil {
		fmt.Println(err)
		return 2
	}
	for _, k := range w.specs.Order {
		ct := w.specs.Contracts[k]
		found := ""
		if ct.Kind == "func" && w.funcs[k] == nil {
			found = "  (NOT FOUND)"
		}
		fmt.Printf("%-7s %-70s props=%v%s\n", ct.Kind, shortKey(k), ct.Props, found)
	}
	return 0
}

func cmdDump(args []string) int {
	fs := flag.NewFlagSet("dump", flag.ExitOnError)
	repo := fs.String("repo", "/repo", "")
	verif := fs.String("verif", "/verif", "")
	fn := fs.String("func", "", "function key substring")
	fs.Parse(args)
	w, err := loadWorld(*repo, *verif)
	if err != nil {
		fmt.Println(err)
		return 2
	}
	for _, k := range sortedKeys(w.funcs) {
		if strings.Contains(k, *fn) {
			w.funcs[k].WriteTo(os.Stdout)
		}
	}
	return 0
}

// lemmaObligation: a lemma is proved once, with the definitions of the opaque
// functions it names revealed, and without the help of other lemmas.
func (w *World) lemmaObligation(ax *Axiom, prop string) (ob *Obligation, err error) {
	defer func() {
		if r := recover(); r != nil {
			if se, ok := r.(specErr); ok {
				err = fmt.Errorf("lemma %s: %s", ax.Name, se.msg)
				return
			}
			panic(r)
		}
	}()
	var pkg *types.Package
	for _, p := range w.repoPkgs() {
		if p.Path() == ax.Pkg {
			pkg = p
		}
	}
	e := w.newEncFor(pkg)
	e.lemmaLimit = ax.Name
	for _, r := range ax.Reveal {
		e.reveal[r] = true
	}
	st := e.newState()
	x := &Ex{enc: e, w: w, pkg: pkg, vars: map[string]*T{}, lets: map[string]string{}, cur: st, old: st}
	goal := x.Bool(ax.Expr)
	if err := e.finalize(); err != nil {
		return nil, err
	}
	props := ax.Props
	if prop != "" && !containsStr(props, prop) {
		props = append(append([]string{}, props...), prop)
	}
	return &Obligation{Name: "lemma/" + ax.Name, Kind: "lemma", Props: props, Func: "lemma", Clause: ax.Expr, seq: e.seq, reach: tTrue(), goal: goal, enc: e}, nil
}

// vacSolve: satisfiability probe for vacuity checks. Any answer other than
// unsat means "not shown contradictory"; that outcome is cached by query hash.
func vacSolve(name, q string, timeoutS int) SolveResult {
	cd := cacheDir()
	var ck string
	if cd != "" {
		ck = filepath.Join(cd, "vac-"+cacheKey(q, 0))
		if _, err := os.Stat(ck); err == nil {
			return SolveResult{Status: "not-unsat", Cached: true}
		}
	}
	r := solveUncached(solvers, name, q, timeoutS, 1)
	if cd != "" && r.Status != "unsat" && r.Status != "error" {
		os.MkdirAll(cd, 0o755)
		os.WriteFile(ck, []byte(r.Status), 0o644)
	}
	return r
}
