package main

// Specification expressions: Go expression syntax (go/parser) plus
// ==>, <==>, forall/exists, old(), has/get, ite, spec functions.

import (
	"fmt"
	"go/ast"
	"go/constant"
	"go/parser"
	"go/token"
	"go/types"
	"net/textproto"
	"os"
	"regexp"
	"runtime/debug"
	"strconv"
	"strings"
)

// symbols that are only meaningful inside a binder (let, quantifier, definition parameter)
var reLocalSym = regexp.MustCompile(`(^|[ (])(m![0-9]|q\$|d\$)`)

type specErr struct{ msg string }

func (e specErr) Error() string { return e.msg }

func fail(format string, a ...any) {
	if os.Getenv("GOVC_DEBUG") != "" {
		fmt.Fprintf(os.Stderr, "specErr: "+format+"\n%s\n", append(a, string(debug.Stack()))...)
	}
	panic(specErr{fmt.Sprintf(format, a...)})
}

// ---- preprocessing ---------------------------------------------------------

func findTop(s, op string) int {
	depth := 0
	inStr := false
	for i := 0; i+len(op) <= len(s); i++ {
		c := s[i]
		if inStr {
			if c == '\\' {
				i++
			} else if c == '"' {
				inStr = false
			}
			continue
		}
		switch c {
		case '"':
			inStr = true
			continue
		case '\'':
			// rune literal
			j := i + 1
			for j < len(s) && s[j] != '\'' {
				if s[j] == '\\' {
					j++
				}
				j++
			}
			i = j
			continue
		case '(', '[', '{':
			depth++
			continue
		case ')', ']', '}':
			depth--
			continue
		}
		if depth == 0 && strings.HasPrefix(s[i:], op) {
			if op == "==>" && i > 0 && s[i-1] == '<' {
				continue
			}
			return i
		}
	}
	return -1
}

func prep(s string) string {
	s = strings.TrimSpace(s)
	for _, q := range []string{"forall", "exists"} {
		if strings.HasPrefix(s, q+" ") {
			i := findTop(s, "::")
			if i < 0 {
				fail("quantifier without ::  in %q", s)
			}
			binders := strings.TrimSpace(s[len(q):i])
			body := prep(s[i+2:])
			// optional trigger `{t1, t2}` after the binders: the quantifier is instantiated only for
			// terms matching all of t1, t2 (one multi-pattern)
			if j := strings.Index(binders, "{"); j >= 0 && strings.HasSuffix(binders, "}") {
				trig := binders[j+1 : len(binders)-1]
				binders = strings.TrimSpace(binders[:j])
				body = "trig_(" + body + ", " + prep(trig) + ")"
			}
			return fmt.Sprintf("%s_(func(%s) bool { return %s })", q, binders, body)
		}
	}
	if i := findTop(s, "<==>"); i >= 0 {
		return "iff_(" + prep(s[:i]) + ", " + prep(s[i+4:]) + ")"
	}
	if i := findTop(s, "==>"); i >= 0 {
		return "imp_(" + prep(s[:i]) + ", " + prep(s[i+3:]) + ")"
	}
	// recurse into parenthesised groups
	var b strings.Builder
	for i := 0; i < len(s); i++ {
		c := s[i]
		if c == '"' {
			j := i + 1
			for j < len(s) && s[j] != '"' {
				if s[j] == '\\' {
					j++
				}
				j++
			}
			b.WriteString(s[i : j+1])
			i = j
			continue
		}
		if c == '\'' {
			j := i + 1
			for j < len(s) && s[j] != '\'' {
				if s[j] == '\\' {
					j++
				}
				j++
			}
			b.WriteString(s[i : j+1])
			i = j
			continue
		}
		if c == '(' || c == '[' {
			closeC := byte(')')
			if c == '[' {
				closeC = ']'
			}
			depth := 1
			j := i + 1
			for ; j < len(s) && depth > 0; j++ {
				switch s[j] {
				case '"':
					j++
					for j < len(s) && s[j] != '"' {
						if s[j] == '\\' {
							j++
						}
						j++
					}
				case '(', '[', '{':
					depth++
				case ')', ']', '}':
					depth--
				}
			}
			inner := s[i+1 : j-1]
			parts := splitTop(inner, ',')
			for k := range parts {
				if strings.Contains(parts[k], "==>") || strings.Contains(parts[k], "forall ") || strings.Contains(parts[k], "exists ") {
					parts[k] = prep(parts[k])
				}
			}
			b.WriteByte(c)
			b.WriteString(strings.Join(parts, ","))
			b.WriteByte(closeC)
			i = j - 1
			continue
		}
		b.WriteByte(c)
	}
	return b.String()
}

var reDollarIdent = regexp.MustCompile(`([A-Za-z0-9_])\$([0-9])`)

func parseSpecExpr(s string) ast.Expr {
	// go/ssa's synthetic names (jump$1) are written as jump_S_1 for the Go parser
	s = reDollarIdent.ReplaceAllString(s, "${1}_S_${2}")
	p := prep(s)
	e, err := parser.ParseExpr(p)
	if err != nil {
		fail("cannot parse %q (as %q): %v", s, p, err)
	}
	return e
}

// ---- translation -------------------------------------------------------------

type Ex struct {
	enc   *Enc
	w     *World
	pkg   *types.Package
	vars  map[string]*T
	lets  map[string]string
	cur   *State
	old   *State
	inOld bool
	// resolve is a fallback for program variables (loop invariants)
	resolve func(name string) *T
	resolveAddr func(name string) *T
	depth   int
	qdepth  int
	letCache map[string]*T
	visHeap  string // ghost visited-set of the function's only map range ("" if none)
	visKey   *Sort
	clos     []closureRec // closures made so far in the function under proof (for call / callpre)
}

func (x *Ex) child() *Ex {
	c := *x
	c.vars = map[string]*T{}
	for k, v := range x.vars {
		c.vars[k] = v
	}
	return &c
}

func (x *Ex) state() *State {
	if x.inOld && x.old != nil {
		return x.old
	}
	return x.cur
}

func (x *Ex) Bool(src string) *T {
	if x.letCache == nil {
		x.letCache = map[string]*T{}
	}
	t := x.tr(parseSpecExpr(src), sBool)
	if t.Sort.Kind != KBool {
		fail("expression %q is not boolean", src)
	}
	return t
}

func (x *Ex) Term(src string, want *Sort) *T { return x.tr(parseSpecExpr(src), want) }

func constOf(e ast.Expr, x *Ex) (constant.Value, bool) {
	switch v := e.(type) {
	case *ast.BasicLit:
		switch v.Kind {
		case token.INT, token.FLOAT:
			return constant.MakeFromLiteral(v.Value, v.Kind, 0), true
		case token.CHAR:
			return constant.MakeFromLiteral(v.Value, v.Kind, 0), true
		}
	case *ast.ParenExpr:
		return constOf(v.X, x)
	case *ast.UnaryExpr:
		if c, ok := constOf(v.X, x); ok && (v.Op == token.SUB || v.Op == token.ADD || v.Op == token.XOR) {
			return constant.UnaryOp(v.Op, c, 0), true
		}
	case *ast.BinaryExpr:
		a, ok1 := constOf(v.X, x)
		b, ok2 := constOf(v.Y, x)
		if ok1 && ok2 {
			switch v.Op {
			case token.ADD, token.SUB, token.MUL, token.AND, token.OR, token.XOR, token.REM:
				return constant.BinaryOp(a, v.Op, b), true
			case token.QUO:
				return constant.BinaryOp(a, token.QUO_ASSIGN, b), true
			case token.SHL, token.SHR:
				n, _ := constant.Uint64Val(b)
				return constant.Shift(a, v.Op, uint(n)), true
			}
		}
	case *ast.Ident:
		if x != nil {
			if _, shadow := x.vars[v.Name]; shadow {
				return nil, false
			}
			if src, ok := x.w.specs.Consts[v.Name]; ok {
				return constOf(parseSpecExpr(src), x)
			}
			if x.pkg != nil {
				if c, ok := x.pkg.Scope().Lookup(v.Name).(*types.Const); ok && c.Val().Kind() == constant.Int {
					return c.Val(), true
				}
			}
		}
	case *ast.SelectorExpr:
		if x != nil {
			if id, ok := v.X.(*ast.Ident); ok {
				if p := x.w.pkgByName(id.Name); p != nil {
					if c, ok := p.Scope().Lookup(v.Sel.Name).(*types.Const); ok && c.Val().Kind() == constant.Int {
						return c.Val(), true
					}
				}
			}
		}
	case *ast.CallExpr:
		// typed constant conversion, e.g. int64(5)
		if len(v.Args) == 1 && x != nil {
			if _, _, ok := x.typeExpr(v.Fun); ok {
				return constOf(v.Args[0], x)
			}
		}
	}
	return nil, false
}

func (x *Ex) litOf(c constant.Value, want *Sort) *T {
	if want == nil || (want.Kind != KBV && want.Kind != KInt) {
		want = sI64
	}
	if want.Kind == KInt {
		return mk(smtInt(c.ExactString()), sInt)
	}
	ci := constant.ToInt(c)
	if ci.Kind() != constant.Int {
		fail("non-integer constant %s", c)
	}
	if i, ok := constant.Int64Val(ci); ok {
		return tBV(i, want)
	}
	if u, ok := constant.Uint64Val(ci); ok {
		return mk(bvLitU(u, want.W), want)
	}
	if want.W > 64 {
		return mk(fmt.Sprintf("(_ bv%s %d)", ci.ExactString(), want.W), want)
	}
	fail("constant %s does not fit %d bits", c, want.W)
	return nil
}

func smtInt(s string) string {
	if strings.HasPrefix(s, "-") {
		return "(- " + s[1:] + ")"
	}
	return s
}

// typeExpr resolves an AST node as a type.
func (x *Ex) typeExpr(e ast.Expr) (*Sort, types.Type, bool) {
	switch v := e.(type) {
	case *ast.Ident:
		switch v.Name {
		case "mathint":
			return sInt, nil, true
		case "ref":
			return sRef, nil, true
		}
		if strings.HasPrefix(v.Name, "sbv") || strings.HasPrefix(v.Name, "ubv") {
			if n, err := strconv.Atoi(v.Name[3:]); err == nil {
				return bvSort(n, v.Name[0] == 's'), nil, true
			}
		}
		if _, shadow := x.vars[v.Name]; shadow {
			return nil, nil, false
		}
		if o := types.Universe.Lookup(v.Name); o != nil {
			if tn, ok := o.(*types.TypeName); ok {
				return x.enc.sortOf(tn.Type()), tn.Type(), true
			}
		}
		if x.pkg != nil {
			if tn, ok := x.pkg.Scope().Lookup(v.Name).(*types.TypeName); ok {
				return x.enc.sortOf(tn.Type()), tn.Type(), true
			}
		}
		// search all repo packages
		for _, p := range x.w.repoPkgs() {
			if tn, ok := p.Scope().Lookup(v.Name).(*types.TypeName); ok {
				return x.enc.sortOf(tn.Type()), tn.Type(), true
			}
		}
	case *ast.SelectorExpr:
		if id, ok := v.X.(*ast.Ident); ok {
			if p := x.w.pkgByName(id.Name); p != nil {
				if tn, ok := p.Scope().Lookup(v.Sel.Name).(*types.TypeName); ok {
					return x.enc.sortOf(tn.Type()), tn.Type(), true
				}
			}
		}
	case *ast.StarExpr:
		if _, t, ok := x.typeExpr(v.X); ok && t != nil {
			pt := types.NewPointer(t)
			return sRef, pt, true
		}
	case *ast.ArrayType:
		if v.Len == nil {
			if _, t, ok := x.typeExpr(v.Elt); ok && t != nil {
				return sSlice, types.NewSlice(t), true
			}
		}
	case *ast.MapType:
		_, kt, ok1 := x.typeExpr(v.Key)
		_, vt, ok2 := x.typeExpr(v.Value)
		if ok1 && ok2 && kt != nil && vt != nil {
			return sRef, types.NewMap(kt, vt), true
		}
	case *ast.IndexExpr:
		// instantiated generic type with one type argument, e.g. iter.Seq[string]
		if gt := x.genericNamed(v.X); gt != nil {
			if _, at, ok := x.typeExpr(v.Index); ok && at != nil {
				if inst, err := types.Instantiate(nil, gt, []types.Type{at}, false); err == nil {
					return x.enc.sortOf(inst), inst, true
				}
			}
		}
	case *ast.IndexListExpr:
		if gt := x.genericNamed(v.X); gt != nil {
			var targs []types.Type
			for _, ie := range v.Indices {
				if _, at, ok := x.typeExpr(ie); ok && at != nil {
					targs = append(targs, at)
				}
			}
			if len(targs) == len(v.Indices) {
				if inst, err := types.Instantiate(nil, gt, targs, false); err == nil {
					return x.enc.sortOf(inst), inst, true
				}
			}
		}
		// Arr[K, V]: specification-level (SMT) array
		if id, ok := v.X.(*ast.Ident); ok && id.Name == "Arr" && len(v.Indices) == 2 {
			ks, _, ok1 := x.typeExpr(v.Indices[0])
			vs, vt, ok2 := x.typeExpr(v.Indices[1])
			if ok1 && ok2 {
				return arrSort(ks, vs), vt, true
			}
		}
	case *ast.ParenExpr:
		return x.typeExpr(v.X)
	case *ast.InterfaceType:
		return sIface, types.NewInterfaceType(nil, nil), true
	}
	return nil, nil, false
}

func (x *Ex) typeFromString(s string) (*Sort, types.Type) {
	e, err := parser.ParseExpr(s)
	if err != nil {
		fail("bad type %q: %v", s, err)
	}
	so, t, ok := x.typeExpr(e)
	if !ok {
		fail("unknown type %q", s)
	}
	return so, t
}

func nilOf(so *Sort) *T {
	switch so.Kind {
	case KRef, KInt:
		return mk("0", so)
	case KIface:
		return mk("nilIface", so)
	case KFn:
		return mk("nilFn", so)
	case KSlice:
		return mk("nilSlice", so)
	}
	fail("nil of sort %s", so.SMT())
	return nil
}

func isNilIdent(e ast.Expr) bool {
	id, ok := e.(*ast.Ident)
	return ok && id.Name == "nil"
}

func (x *Ex) tr(e ast.Expr, want *Sort) *T {
	x.depth++
	defer func() { x.depth-- }()
	if x.depth > 200 {
		fail("specification expression too deep (recursive let/spec func?)")
	}
	if c, ok := constOf(e, x); ok {
		if _, isCall := e.(*ast.CallExpr); !isCall {
			return x.litOf(c, want)
		}
		// typed conversion of a constant: sort from the type
		ce := e.(*ast.CallExpr)
		so, t, _ := x.typeExpr(ce.Fun)
		r := x.litOf(c, so)
		r.GoT = t
		return r
	}
	switch v := e.(type) {
	case *ast.ParenExpr:
		return x.tr(v.X, want)
	case *ast.BasicLit:
		if v.Kind == token.STRING {
			s, err := strconv.Unquote(v.Value)
			if err != nil {
				fail("bad string literal %s", v.Value)
			}
			return x.enc.strLit(s)
		}
		fail("unsupported literal %s", v.Value)
	case *ast.Ident:
		return x.ident(v.Name, want)
	case *ast.UnaryExpr:
		switch v.Op {
		case token.NOT:
			return tNot(x.tr(v.X, sBool))
		case token.SUB:
			a := x.tr(v.X, want)
			if a.Sort.Kind == KInt {
				return mk(sapp("-", a.S), sInt)
			}
			return mk(sapp("bvneg", a.S), a.Sort)
		case token.XOR:
			a := x.tr(v.X, want)
			return mk(sapp("bvnot", a.S), a.Sort)
		case token.AND:
			// &name: the address of an address-taken local variable
			if id, ok := v.X.(*ast.Ident); ok && x.resolveAddr != nil {
				if t := x.resolveAddr(id.Name); t != nil {
					return t
				}
			}
			// &x.f : the address of a field of the object x points to
			if se, ok := v.X.(*ast.SelectorExpr); ok {
				base := x.tr(se.X, nil)
				if base.GoT != nil {
					if pt, ok := types.Unalias(base.GoT).Underlying().(*types.Pointer); ok {
						if st := structOf(pt.Elem()); st != nil {
							if fi := fieldIndex(st, se.Sel.Name); fi >= 0 {
								fn := "fld$" + ownerName(pt.Elem()) + "." + se.Sel.Name
								x.enc.decl(fn, fmt.Sprintf("(declare-fun %s (Int) Int)", fn))
								return mk(sapp(fn, base.S), sRef).withGo(types.NewPointer(st.Field(fi).Type()))
							}
						}
					}
				}
			}
			fail("cannot take the address of this expression in a specification")
		}
		fail("unsupported unary operator %s", v.Op)
	case *ast.BinaryExpr:
		return x.binary(v, want)
	case *ast.SelectorExpr:
		return x.selector(v, want)
	case *ast.IndexExpr:
		return x.index(v)
	case *ast.CallExpr:
		return x.call(v, want)
	case *ast.StarExpr:
		p := x.tr(v.X, nil)
		pt, ok := types.Unalias(p.GoT).Underlying().(*types.Pointer)
		if !ok {
			fail("deref of non-pointer")
		}
		return loadPtr(x.enc, x.state(), p, pt.Elem())
	case *ast.SliceExpr:
		a := x.tr(v.X, nil)
		if a.Sort.Kind != KStr {
			fail("slice expression only on strings in specs")
		}
		lo := tBV(0, sI64)
		hi := mk(sapp("slen", a.S), sI64)
		if v.Low != nil {
			lo = x.tr(v.Low, sI64)
		}
		if v.High != nil {
			hi = x.tr(v.High, sI64)
		}
		return mk(sapp("ssub", a.S, lo.S, hi.S), sStr)
	}
	fail("unsupported expression form %T", e)
	return nil
}

func (x *Ex) ident(name string, want *Sort) *T {
	switch name {
	case "true":
		return tTrue()
	case "false":
		return tFalse()
	case "nil":
		if want == nil {
			fail("cannot type nil here")
		}
		return nilOf(want)
	}
	if t, ok := x.vars[name]; ok {
		return t
	}
	if src, ok := x.lets[name]; ok {
		key := name
		if x.inOld {
			key = "old:" + name
		}
		if x.letCache != nil {
			if t, ok := x.letCache[key]; ok {
				return t
			}
		}
		t := x.tr(parseSpecExpr(src), want)
		if x.letCache != nil && x.qdepth == 0 && t.Sort.Kind != KTuple {
			t = x.enc.define("let$"+sanitize(name), t)
			x.letCache[key] = t
		}
		return t
	}
	if g, ok := x.w.specs.Ghosts[name]; ok {
		c := x.child()
		c.vars = map[string]*T{}
		if g.Heap {
			ks, _ := c.typeFromString(g.Type)
			vs, vt := c.typeFromString(g.Val)
			h := x.state().get("G$"+name, arrSort(ks, vs))
			h.GoT = vt
			return h
		}
		so, t := c.typeFromString(g.Type)
		r := x.state().get("G$"+name, so)
		return r.withGo(t)
	}
	if x.resolve != nil {
		if t := x.resolve(name); t != nil {
			return t
		}
	}
	if x.pkg != nil {
		if o := x.pkg.Scope().Lookup(name); o != nil {
			if c, ok := o.(*types.Const); ok {
				return x.enc.constTerm(c.Val(), c.Type())
			}
			if gv, ok := o.(*types.Var); ok {
				return x.w.globalValue(x.enc, x.state(), gv)
			}
		}
	}
	fail("unknown identifier %q", name)
	return nil
}

func isLiteralish(e ast.Expr, x *Ex) bool {
	if isNilIdent(e) {
		return true
	}
	_, ok := constOf(e, x)
	if ok {
		if _, isCall := e.(*ast.CallExpr); isCall {
			return false
		}
	}
	return ok
}

func (x *Ex) binary(v *ast.BinaryExpr, want *Sort) *T {
	switch v.Op {
	case token.LAND:
		return tAnd(x.tr(v.X, sBool), x.tr(v.Y, sBool))
	case token.LOR:
		return tOr(x.tr(v.X, sBool), x.tr(v.Y, sBool))
	}
	isCmp := false
	switch v.Op {
	case token.EQL, token.NEQ, token.LSS, token.LEQ, token.GTR, token.GEQ:
		isCmp = true
	}
	opWant := want
	if isCmp {
		opWant = nil
	}
	var a, b *T
	if isLiteralish(v.X, x) && !isLiteralish(v.Y, x) {
		b = x.tr(v.Y, opWant)
		a = x.tr(v.X, b.Sort)
	} else {
		a = x.tr(v.X, opWant)
		if v.Op == token.SHL || v.Op == token.SHR {
			b = x.tr(v.Y, a.Sort)
		} else {
			b = x.tr(v.Y, a.Sort)
		}
	}
	if !a.Sort.Same(b.Sort) {
		// Ref vs Int are both Int
		if !(a.Sort.SMT() == b.Sort.SMT()) {
			fail("operands of %s have different sorts: %s vs %s  (%s | %s)", v.Op, a.Sort.SMT(), b.Sort.SMT(), a.S, b.S)
		}
	}
	so := a.Sort
	switch v.Op {
	case token.EQL:
		return eqTerm(a, b)
	case token.NEQ:
		return tNot(eqTerm(a, b))
	}
	switch so.Kind {
	case KBV:
		var op string
		s := so.Signed
		switch v.Op {
		case token.ADD:
			op = "bvadd"
		case token.SUB:
			op = "bvsub"
		case token.MUL:
			op = "bvmul"
		case token.QUO:
			op = pick(s, "bvsdiv", "bvudiv")
		case token.REM:
			op = pick(s, "bvsrem", "bvurem")
		case token.AND:
			op = "bvand"
		case token.OR:
			op = "bvor"
		case token.XOR:
			op = "bvxor"
		case token.SHL:
			op = "bvshl"
		case token.SHR:
			op = pick(s, "bvashr", "bvlshr")
		case token.LSS:
			return mk(sapp(pick(s, "bvslt", "bvult"), a.S, b.S), sBool)
		case token.LEQ:
			return mk(sapp(pick(s, "bvsle", "bvule"), a.S, b.S), sBool)
		case token.GTR:
			return mk(sapp(pick(s, "bvsgt", "bvugt"), a.S, b.S), sBool)
		case token.GEQ:
			return mk(sapp(pick(s, "bvsge", "bvuge"), a.S, b.S), sBool)
		default:
			fail("unsupported operator %s on bit-vectors", v.Op)
		}
		r := mk(sapp(op, a.S, b.S), so)
		r.GoT = a.GoT
		return r
	case KInt, KRef:
		var op string
		switch v.Op {
		case token.ADD:
			op = "+"
		case token.SUB:
			op = "-"
		case token.MUL:
			op = "*"
		case token.QUO:
			op = "div"
		case token.REM:
			op = "mod"
		case token.LSS:
			return mk(sapp("<", a.S, b.S), sBool)
		case token.LEQ:
			return mk(sapp("<=", a.S, b.S), sBool)
		case token.GTR:
			return mk(sapp(">", a.S, b.S), sBool)
		case token.GEQ:
			return mk(sapp(">=", a.S, b.S), sBool)
		default:
			fail("unsupported operator %s on integers", v.Op)
		}
		return mk(sapp(op, a.S, b.S), sInt)
	case KStr:
		if v.Op == token.ADD {
			return x.enc.concat(a, b)
		}
	}
	fail("unsupported operator %s on sort %s", v.Op, so.SMT())
	return nil
}

func pick[T any](c bool, a, b T) T {
	if c {
		return a
	}
	return b
}

// seqElemType: element type T of an iter.Seq[T] (which of the two for iter.Seq2[K,V]).
func seqElemType(t types.Type, which int) types.Type {
	if t == nil {
		return nil
	}
	sig, ok := types.Unalias(t).Underlying().(*types.Signature)
	if !ok || sig.Params().Len() != 1 {
		return nil
	}
	ysig, ok := sig.Params().At(0).Type().Underlying().(*types.Signature)
	if !ok || ysig.Params().Len() <= which {
		return nil
	}
	return ysig.Params().At(which).Type()
}

// ghost view of an iterator value: the sequence of values it yields when run to completion
func (e *Enc) seqLen(q *T) *T {
	e.decl("seqLen", "(declare-fun seqLen (Fn) (_ BitVec 64))")
	e.decl("seqLen-nonneg", "(assert (forall ((q Fn)) (! (and (bvsle #x0000000000000000 (seqLen q)) (bvult (seqLen q) #x4000000000000000)) :pattern ((seqLen q)))))")
	return mk(sapp("seqLen", q.S), sI64)
}

func (e *Enc) seqAt(q, k *T, et types.Type, second bool) *T {
	so := e.sortOf(et)
	name := "seqAt$" + so.KeyS()
	if second {
		name = "seqAt2$" + so.KeyS()
	}
	e.decl(name, fmt.Sprintf("(declare-fun %s (Fn (_ BitVec 64)) %s)", name, so.SMT()))
	return mk(sapp(name, q.S, k.S), so).withGo(et)
}

func eqTerm(a, b *T) *T {
	if a.Sort.Kind == KSlice && (b.S == "nilSlice" || a.S == "nilSlice") {
		o := a
		if a.S == "nilSlice" {
			o = b
		}
		return mk(sapp("=", sapp("sl_arr", o.S), "0"), sBool)
	}
	return tEq(a, b)
}

func (e *Enc) concat(a, b *T) *T {
	r := mk(sapp("sconcat", a.S, b.S), sStr)
	r.Op, r.Args = "sconcat", []*T{a, b}
	return r
}

func (x *Ex) selector(v *ast.SelectorExpr, want *Sort) *T {
	if id, ok := v.X.(*ast.Ident); ok {
		if _, isVar := x.vars[id.Name]; !isVar {
			if _, isLet := x.lets[id.Name]; !isLet {
				if p := x.w.pkgByName(id.Name); p != nil {
					o := p.Scope().Lookup(v.Sel.Name)
					switch oo := o.(type) {
					case *types.Const:
						return x.enc.constTerm(oo.Val(), oo.Type())
					case *types.Var:
						return x.w.globalValue(x.enc, x.state(), oo)
					}
					fail("unknown package member %s.%s", id.Name, v.Sel.Name)
				}
			}
		}
	}
	base := x.tr(v.X, nil)
	return fieldOf(x.enc, x.state(), base, v.Sel.Name)
}

// fieldOf reads field `name` of a struct value or through a pointer.
func fieldOf(e *Enc, st *State, base *T, name string) *T {
	if base.GoT == nil {
		fail("field %s of a value with unknown Go type (%s)", name, base.S)
	}
	bt := types.Unalias(base.GoT)
	strct := structOf(bt)
	if strct == nil {
		fail("field %s of non-struct type %s", name, bt)
	}
	idx := fieldIndex(strct, name)
	if idx < 0 {
		fail("type %s has no field %s", bt, name)
	}
	ft := strct.Field(idx).Type()
	fs := e.sortOf(ft)
	if _, isPtr := bt.Underlying().(*types.Pointer); isPtr {
		owner := ownerName(bt.Underlying().(*types.Pointer).Elem())
		h := st.get(fieldHeap(owner, name), arrSort(sRef, fs))
		r := sel(h, base, fs)
		r.GoT = ft
		if fs.Kind == KRef && strings.HasPrefix(h.S, "H0$") && !reLocalSym.MatchString(base.S) {
			// well-formed entry heap: an object that existed at entry only refers to objects that existed at entry
			key := "wf:" + r.S
			if !e.declSeen[key] {
				e.declSeen[key] = true
				n0 := e.entryHeap(allocHeap, sInt)
				e.assume(mk(sapp("=>", sapp("and", sapp("<", base.S, n0.S), sapp(">", base.S, "0")), sapp("and", sapp(">=", r.S, "0"), sapp("<", r.S, n0.S))), sBool))
			}
		}
		return r
	}
	so := e.sortOf(bt)
	r := mk(sapp(selName(so.Name, name, idx), base.S), fs)
	r.GoT = ft
	return r
}

func ownerName(t types.Type) string {
	t = types.Unalias(t)
	if n, ok := t.(*types.Named); ok {
		return shortTypeName(n)
	}
	return "anon$" + sanitize(t.String())
}

// loadPtr reads *p where p points to a value of type elem.
func loadPtr(e *Enc, st *State, p *T, elem types.Type) *T {
	if at, ok := elem.Underlying().(*types.Array); ok {
		ets := e.sortOf(at.Elem())
		h := st.get(elemHeap(ets), arrSort(sRef, arrSort(sI64, ets)))
		r := sel(h, p, arrSort(sI64, ets))
		r.GoT = elem
		return r
	}
	es := e.sortOf(elem)
	if es.Kind == KStruct {
		strct := structOf(elem)
		var args []string
		owner := ownerName(elem)
		for i := 0; i < strct.NumFields(); i++ {
			f := strct.Field(i)
			fs := e.sortOf(f.Type())
			h := st.get(fieldHeap(owner, f.Name()), arrSort(sRef, fs))
			args = append(args, sel(h, p, fs).S)
		}
		if len(args) == 0 {
			args = []string{"true"}
		}
		r := mk(sapp("mk"+es.Name, args...), es)
		r.GoT = elem
		return r
	}
	h := st.get(cellHeap(es), arrSort(sRef, es))
	r := sel(h, p, es)
	r.GoT = elem
	return r
}

func (x *Ex) index(v *ast.IndexExpr) *T {
	a := x.tr(v.X, nil)
	switch a.Sort.Kind {
	case KStr:
		i := x.tr(v.Index, sI64)
		return mk(sapp("sat", a.S, i.S), sU8)
	case KSlice:
		i := x.tr(v.Index, sI64)
		var et types.Type
		if a.GoT != nil {
			if sl, ok := types.Unalias(a.GoT).Underlying().(*types.Slice); ok {
				et = sl.Elem()
			}
		}
		if et == nil {
			fail("index of slice with unknown element type")
		}
		return sliceElem(x.enc, x.state(), a, i, et)
	case KArray:
		i := x.tr(v.Index, a.Sort.Key)
		r := sel(a, i, a.Sort.Val)
		r.GoT = a.GoT
		return r
	case KRef:
		if a.GoT != nil {
			if m, ok := types.Unalias(a.GoT).Underlying().(*types.Map); ok {
				k := x.tr(v.Index, x.enc.sortOf(m.Key()))
				return mapGet(x.enc, x.state(), a, k, m)
			}
		}
	}
	fail("cannot index %s", a.S)
	return nil
}

func sliceElem(e *Enc, st *State, s *T, i *T, et types.Type) *T {
	es := e.sortOf(et)
	h := st.get(elemHeap(es), arrSort(sRef, arrSort(sI64, es)))
	arr := mk(sapp("select", h.S, sapp("sl_arr", s.S)), arrSort(sI64, es))
	r := mk(sapp("select", arr.S, sapp("sidx", sapp("sl_off", s.S), i.S)), es)
	r.GoT = et
	return r
}

func mapHas(e *Enc, st *State, m *T, k *T, mt *types.Map) *T {
	ks, vs := e.sortOf(mt.Key()), e.sortOf(mt.Elem())
	h := st.get(mapHeap(ks, vs, "has"), arrSort(sRef, arrSort(ks, sBool)))
	return mk(sapp("select", sapp("select", h.S, m.S), k.S), sBool)
}

func mapGet(e *Enc, st *State, m *T, k *T, mt *types.Map) *T {
	ks, vs := e.sortOf(mt.Key()), e.sortOf(mt.Elem())
	h := st.get(mapHeap(ks, vs, "val"), arrSort(sRef, arrSort(ks, vs)))
	r := mk(sapp("select", sapp("select", h.S, m.S), k.S), vs)
	r.GoT = mt.Elem()
	return r
}

func mapOf(t *T) *types.Map {
	if t.GoT == nil {
		fail("map operation on value of unknown Go type: %s", t.S)
	}
	m, ok := types.Unalias(t.GoT).Underlying().(*types.Map)
	if !ok {
		fail("map operation on non-map %s", t.GoT)
	}
	return m
}

func (x *Ex) call(v *ast.CallExpr, want *Sort) *T {
	// conversion?
	if len(v.Args) == 1 {
		if so, t, ok := x.typeExpr(v.Fun); ok {
			a := x.tr(v.Args[0], nil)
			return x.convert(a, so, t)
		}
	}
	fn, ok := v.Fun.(*ast.Ident)
	if !ok {
		fail("unsupported call in specification: %T", v.Fun)
	}
	argN := func(n int) {
		if len(v.Args) != n {
			fail("%s expects %d arguments", fn.Name, n)
		}
	}
	switch fn.Name {
	case "old":
		argN(1)
		c := *x
		c.inOld = true
		return c.tr(v.Args[0], want)
	case "imp_":
		argN(2)
		return tImp(x.tr(v.Args[0], sBool), x.tr(v.Args[1], sBool))
	case "iff_":
		argN(2)
		return tEq(x.tr(v.Args[0], sBool), x.tr(v.Args[1], sBool))
	case "forall_", "exists_":
		argN(1)
		fl, ok := v.Args[0].(*ast.FuncLit)
		if !ok {
			fail("bad quantifier")
		}
		c := x.child()
		c.qdepth++
		var binds []string
		for _, f := range fl.Type.Params.List {
			so, t, ok := x.typeExpr(f.Type)
			if !ok {
				fail("unknown type in quantifier")
			}
			for _, n := range f.Names {
				sym := "q$" + n.Name
				c.vars[n.Name] = mk(sym, so).withGo(t)
				binds = append(binds, fmt.Sprintf("(%s %s)", sym, so.SMT()))
			}
		}
		ret := fl.Body.List[0].(*ast.ReturnStmt).Results[0]
		var pats []string
		if call, ok := ret.(*ast.CallExpr); ok {
			if id, ok := call.Fun.(*ast.Ident); ok && id.Name == "trig_" && len(call.Args) >= 2 {
				ret = call.Args[0]
				for _, pa := range call.Args[1:] {
					pats = append(pats, c.tr(pa, nil).S)
				}
			}
		}
		body := c.tr(ret, sBool)
		q := "forall"
		if fn.Name == "exists_" {
			q = "exists"
		}
		if len(pats) > 0 {
			return mk(fmt.Sprintf("(%s (%s) (! %s :pattern (%s)))", q, strings.Join(binds, " "), body.S, strings.Join(pats, " ")), sBool)
		}
		return mk(fmt.Sprintf("(%s (%s) %s)", q, strings.Join(binds, " "), body.S), sBool)
	case "ite":
		argN(3)
		c := x.tr(v.Args[0], sBool)
		var a, b *T
		if isLiteralish(v.Args[1], x) && !isLiteralish(v.Args[2], x) {
			b = x.tr(v.Args[2], want)
			a = x.tr(v.Args[1], b.Sort)
		} else {
			a = x.tr(v.Args[1], want)
			b = x.tr(v.Args[2], a.Sort)
		}
		return tIte(c, a, b)
	case "min", "max":
		if len(v.Args) < 2 {
			fail("%s needs ≥2 arguments", fn.Name)
		}
		var first *T
		var firstIdx int
		for i, a := range v.Args {
			if !isLiteralish(a, x) {
				first = x.tr(a, want)
				firstIdx = i
				break
			}
		}
		if first == nil {
			first = x.tr(v.Args[0], want)
		}
		acc := (*T)(nil)
		for i, a := range v.Args {
			var t *T
			if i == firstIdx {
				t = first
			} else {
				t = x.tr(a, first.Sort)
			}
			if acc == nil {
				acc = t
				continue
			}
			acc = minmax(fn.Name == "min", acc, t)
		}
		return acc
	case "len":
		argN(1)
		a := x.tr(v.Args[0], nil)
		switch a.Sort.Kind {
		case KStr:
			return mk(sapp("slen", a.S), sI64)
		case KSlice:
			return mk(sapp("sl_len", a.S), sI64)
		case KRef:
			mt := mapOf(a)
			return mapLen(x.enc, x.state(), a, mt)
		}
		fail("len of %s", a.Sort.SMT())
	case "cap":
		argN(1)
		a := x.tr(v.Args[0], nil)
		if a.GoT != nil {
			if _, isChan := types.Unalias(a.GoT).Underlying().(*types.Chan); isChan {
				x.enc.decl("chcap", "(declare-fun chcap (Int) (_ BitVec 64))")
				return mk(sapp("chcap", a.S), sI64)
			}
		}
		return mk(sapp("sl_cap", a.S), sI64)
	case "has":
		argN(2)
		m := x.tr(v.Args[0], nil)
		if m.Sort.Kind == KArray {
			k := x.tr(v.Args[1], m.Sort.Key)
			return sel(m, k, m.Sort.Val)
		}
		mt := mapOf(m)
		k := x.tr(v.Args[1], x.enc.sortOf(mt.Key()))
		return mapHas(x.enc, x.state(), m, k, mt)
	case "get":
		argN(2)
		m := x.tr(v.Args[0], nil)
		mt := mapOf(m)
		k := x.tr(v.Args[1], x.enc.sortOf(mt.Key()))
		return mapGet(x.enc, x.state(), m, k, mt)
	case "hasArr", "valArr":
		// the key->present / key->value arrays of a Go map object
		argN(1)
		m := x.tr(v.Args[0], nil)
		mt := mapOf(m)
		ks, vs := x.enc.sortOf(mt.Key()), x.enc.sortOf(mt.Elem())
		if fn.Name == "hasArr" {
			h := x.state().get(mapHeap(ks, vs, "has"), arrSort(sRef, arrSort(ks, sBool)))
			return mk(sapp("select", h.S, m.S), arrSort(ks, sBool))
		}
		h := x.state().get(mapHeap(ks, vs, "val"), arrSort(sRef, arrSort(ks, vs)))
		return mk(sapp("select", h.S, m.S), arrSort(ks, vs)).withGo(mt.Elem())
	case "fresh":
		argN(1)
		a := x.tr(v.Args[0], nil)
		oldNext := x.cur.next()
		if x.old != nil {
			oldNext = x.old.next()
		}
		ref := a.S
		if a.Sort.Kind == KSlice {
			ref = sapp("sl_arr", a.S)
		}
		return mk(sapp("and", sapp(">=", ref, oldNext.S), sapp("<", ref, x.cur.next().S)), sBool)
	case "noKeys":
		argN(0)
		so := arrSort(sStr, sBool)
		return mk("((as const "+so.SMT()+") false)", so)
	case "nilMapVals":
		argN(0)
		so := arrSort(sStr, sStr)
		nv := "nilvals$" + so.KeyS()
		x.enc.decl(nv, fmt.Sprintf("(declare-const %s %s)", nv, so.SMT()))
		return mk(nv, so)
	case "elemsArr":
		// the element array of a slice (with sliceOff and len: the slice's view of memory)
		argN(1)
		a := x.tr(v.Args[0], sSlice)
		var et types.Type
		if a.GoT != nil {
			if sl, ok := types.Unalias(a.GoT).Underlying().(*types.Slice); ok {
				et = sl.Elem()
			}
		}
		if et == nil {
			fail("elemsArr: not a slice")
		}
		es := x.enc.sortOf(et)
		h := x.state().get(elemHeap(es), arrSort(sRef, arrSort(sI64, es)))
		return mk(sapp("select", h.S, sapp("sl_arr", a.S)), arrSort(sI64, es))
	case "sliceOff":
		argN(1)
		a := x.tr(v.Args[0], sSlice)
		return mk(sapp("sl_off", a.S), sI64)
	case "sent":
		// sent(ch): number of send statements executed on channel ch by this thread of control
		argN(1)
		a := x.tr(v.Args[0], nil)
		return mk(sapp("select", x.state().get("G$chansent", arrSort(sRef, sI64)).S, a.S), sI64)
	case "call", "callpre":
		// call(f, a...): the result of applying the function value f - which must be a closure made in the
		// function under proof whose own contract is `pure` with a clause `ensures result == E` - to the
		// arguments: E with the closure's parameters bound to the arguments and its free variables to
		// the captured cells, in the current state. callpre(f, a...): the closure's preconditions for
		// those arguments. This is how a contract of a higher-order dependency (slices.ContainsFunc)
		// speaks about the predicate it is given; the closure body is verified against its contract
		// like any other function.
		if len(v.Args) < 1 {
			fail("%s needs a function value", fn.Name)
		}
		f := x.tr(v.Args[0], sFn)
		var rec *closureRec
		for k := range x.clos {
			if x.clos[k].term.S == f.S {
				rec = &x.clos[k]
			}
		}
		if rec == nil {
			fail("%s: the function value is not a closure made in the function under proof", fn.Name)
		}
		ct := x.w.specs.Contracts[funcKey(rec.fn)]
		if ct == nil || !ct.Pure {
			fail("%s: closure %s has no `pure` contract", fn.Name, rec.fn.Name())
		}
		if len(v.Args)-1 != len(rec.fn.Params) {
			fail("%s: wrong number of arguments for %s", fn.Name, rec.fn.Name())
		}
		cx := &Ex{enc: x.enc, w: x.w, pkg: rec.fn.Pkg.Pkg, vars: map[string]*T{}, lets: map[string]string{}, cur: x.state(), old: x.state(), qdepth: x.qdepth, clos: x.clos}
		for k, fv := range rec.fn.FreeVars {
			if k < len(rec.bindings) {
				cx.vars[fv.Name()] = rec.bindings[k].withGo(fv.Type())
			}
		}
		for k, p := range rec.fn.Params {
			a := x.tr(v.Args[k+1], x.enc.sortOf(p.Type()))
			cx.vars[p.Name()] = a.withGo(p.Type())
		}
		for _, l := range ct.Lets {
			cx.lets[l.Name] = l.Expr
		}
		if fn.Name == "callpre" {
			out := tTrue()
			for _, c := range ct.Requires {
				out = tAnd(out, cx.Bool(c.Expr))
			}
			return out
		}
		for _, c := range ct.Ensures {
			e := strings.TrimSpace(c.Expr)
			if strings.HasPrefix(e, "result == ") {
				rs := rec.fn.Signature.Results()
				if rs.Len() != 1 {
					break
				}
				return cx.Term(strings.TrimPrefix(e, "result == "), x.enc.sortOf(rs.At(0).Type()))
			}
		}
		fail("%s: closure %s has no clause of the form `ensures result == E`", fn.Name, rec.fn.Name())
		return nil
	case "zeroOf":
		// the zero value of the argument's type
		argN(1)
		a := x.tr(v.Args[0], want)
		return x.enc.zeroOfSort(a.Sort, a.GoT)
	case "visited":
		// visited(k): the function's (only) map range has already yielded key k
		argN(1)
		if x.visHeap == "" {
			fail("visited(): the function has no unique range over a map")
		}
		k := x.tr(v.Args[0], x.visKey)
		return mk(sapp("select", x.state().get(x.visHeap, arrSort(x.visKey, sBool)).S, k.S), sBool)
	case "byteStr":
		// the one-byte string holding c
		argN(1)
		c := x.tr(v.Args[0], sU8)
		r := mk(sapp("sbyte", c.S), sStr)
		return r
	case "arrStore":
		// arrStore(a, k, v): the array a with index k set to v
		argN(3)
		a := x.tr(v.Args[0], nil)
		if a.Sort.Kind != KArray {
			fail("arrStore on non-array")
		}
		k := x.tr(v.Args[1], a.Sort.Key)
		val := x.tr(v.Args[2], a.Sort.Val)
		return mk(sapp("store", a.S, k.S, val.S), a.Sort)
	case "seqLen":
		argN(1)
		q := x.tr(v.Args[0], sFn)
		return x.enc.seqLen(q)
	case "seqAt", "seqAt2":
		argN(2)
		q := x.tr(v.Args[0], sFn)
		k := x.tr(v.Args[1], sI64)
		et := seqElemType(q.GoT, pick(fn.Name == "seqAt2", 1, 0))
		if et == nil {
			fail("%s: cannot determine the element type of the iterator %s", fn.Name, q.S)
		}
		return x.enc.seqAt(q, k, et, fn.Name == "seqAt2")
	case "sameArray":
		argN(2)
		a := x.tr(v.Args[0], nil)
		b := x.tr(v.Args[1], nil)
		return mk(sapp("=", sapp("sl_arr", a.S), sapp("sl_arr", b.S)), sBool)
	case "allocated":
		argN(1)
		a := x.tr(v.Args[0], nil)
		ref := a.S
		if a.Sort.Kind == KSlice {
			ref = sapp("sl_arr", a.S)
		}
		return mk(sapp("<", ref, x.state().next().S), sBool)
	case "mapUpdated", "mapRemoved", "mapUnchanged":
		// whole-map view: the map object after the call is the old one with one key set / removed
		if x.old == nil {
			fail("%s needs a two-state context", fn.Name)
		}
		m := x.tr(v.Args[0], nil)
		mt := mapOf(m)
		ks, vs := x.enc.sortOf(mt.Key()), x.enc.sortOf(mt.Elem())
		hasS, valS := arrSort(sRef, arrSort(ks, sBool)), arrSort(sRef, arrSort(ks, vs))
		hn, vn, cn := mapHeap(ks, vs, "has"), mapHeap(ks, vs, "val"), mapHeap(ks, vs, "cnt")
		oh, nh := x.old.get(hn, hasS), x.cur.get(hn, hasS)
		ov, nv := x.old.get(vn, valS), x.cur.get(vn, valS)
		oc, nc := x.old.get(cn, arrSort(sRef, sI64)), x.cur.get(cn, arrSort(sRef, sI64))
		switch fn.Name {
		case "mapUnchanged":
			argN(1)
			return mk(sapp("and", sapp("=", sapp("select", nh.S, m.S), sapp("select", oh.S, m.S)),
				sapp("=", sapp("select", nv.S, m.S), sapp("select", ov.S, m.S)),
				sapp("=", sapp("select", nc.S, m.S), sapp("select", oc.S, m.S))), sBool)
		case "mapUpdated":
			argN(3)
			k := x.tr(v.Args[1], ks)
			val := x.tr(v.Args[2], vs)
			had := sapp("select", sapp("select", oh.S, m.S), k.S)
			return mk(sapp("and",
				sapp("=", sapp("select", nh.S, m.S), sapp("store", sapp("select", oh.S, m.S), k.S, "true")),
				sapp("=", sapp("select", nv.S, m.S), sapp("store", sapp("select", ov.S, m.S), k.S, val.S)),
				sapp("=", sapp("select", nc.S, m.S), sapp("ite", had, sapp("select", oc.S, m.S), sapp("bvadd", sapp("select", oc.S, m.S), bvLit(1, 64))))), sBool)
		default:
			argN(2)
			k := x.tr(v.Args[1], ks)
			had := sapp("select", sapp("select", oh.S, m.S), k.S)
			return mk(sapp("and",
				sapp("=", sapp("select", nh.S, m.S), sapp("store", sapp("select", oh.S, m.S), k.S, "false")),
				sapp("=", sapp("select", nv.S, m.S), sapp("select", ov.S, m.S)),
				sapp("=", sapp("select", nc.S, m.S), sapp("ite", had, sapp("bvsub", sapp("select", oc.S, m.S), bvLit(1, 64)), sapp("select", oc.S, m.S)))), sBool)
		}
	case "canon":
		// http.CanonicalHeaderKey: literals are evaluated by running the real function
		argN(1)
		if bl, ok := v.Args[0].(*ast.BasicLit); ok && bl.Kind == token.STRING {
			sv, _ := strconv.Unquote(bl.Value)
			x.enc.uses["textproto.CanonicalMIMEHeaderKey on string literals is evaluated by running the real function (go1.26.8) at check time"] = true
			return x.enc.strLit(textproto.CanonicalMIMEHeaderKey(sv))
		}
		a := x.tr(v.Args[0], sStr)
		return x.enc.canonTerm(a)
	case "concat":
		acc := x.tr(v.Args[0], sStr)
		for _, a := range v.Args[1:] {
			acc = x.enc.concat(acc, x.tr(a, sStr))
		}
		return acc
	case "sext", "zext", "trunc":
		argN(2)
		a := x.tr(v.Args[0], nil)
		c, ok := constOf(v.Args[1], x)
		if !ok {
			fail("%s needs a constant width", fn.Name)
		}
		n64, _ := constant.Int64Val(c)
		n := int(n64)
		switch fn.Name {
		case "sext":
			return mk(fmt.Sprintf("((_ sign_extend %d) %s)", n-a.Sort.W, a.S), bvSort(n, true))
		case "zext":
			return mk(fmt.Sprintf("((_ zero_extend %d) %s)", n-a.Sort.W, a.S), bvSort(n, a.Sort.Signed))
		default:
			return mk(fmt.Sprintf("((_ extract %d 0) %s)", n-1, a.S), bvSort(n, a.Sort.Signed))
		}
	case "as":
		// as(x, T): the value of concrete type T held by interface value x
		argN(2)
		a := x.tr(v.Args[0], sIface)
		so, t, ok := x.typeExpr(v.Args[1])
		if !ok || t == nil {
			fail("as: unknown type")
		}
		unf := "unI$" + so.KeyS()
		x.enc.decl(unf, fmt.Sprintf("(declare-fun %s (Iface) %s)", unf, so.SMT()))
		return mk(sapp(unf, a.S), so).withGo(t)
	case "typeis":
		// typeis(x, T): dynamic type of interface value x is T
		argN(2)
		a := x.tr(v.Args[0], sIface)
		_, t, ok := x.typeExpr(v.Args[1])
		if !ok || t == nil {
			fail("typeis: unknown type")
		}
		return mk(sapp("=", sapp("ityp", a.S), strconv.Itoa(x.enc.typeTag(t))), sBool)
	}
	// spec function
	sf, ok := x.w.specs.Funcs[fn.Name]
	if !ok {
		fail("unknown spec function %q", fn.Name)
	}
	if len(sf.Params) != len(v.Args) {
		fail("spec func %s expects %d arguments, got %d", sf.Name, len(sf.Params), len(v.Args))
	}
	tc := x.child()
	tc.vars = map[string]*T{} // types resolve without shadowing
	args := make([]*T, len(v.Args))
	for i, p := range sf.Params {
		ps, pt := tc.typeFromString(p.Type)
		args[i] = x.tr(v.Args[i], ps)
		if !args[i].Sort.Same(ps) && args[i].Sort.SMT() != ps.SMT() {
			fail("argument %d of %s: sort %s, expected %s", i, sf.Name, args[i].Sort.SMT(), ps.SMT())
		}
		if args[i].GoT == nil {
			args[i] = args[i].withGo(pt)
		}
	}
	rs, rt := tc.typeFromString(sf.Result)
	if sf.Body != "" && !sf.Opaque {
		// macro expansion with the arguments bound
		c := x.child()
		c.vars = map[string]*T{}
		c.lets = nil
		c.letCache = nil
		c.resolve = nil
		var binds []string
		for i, p := range sf.Params {
			a := args[i]
			if len(a.S) > 24 && a.Sort.Kind != KTuple {
				x.enc.fresh++
				sym := fmt.Sprintf("m!%d", x.enc.fresh)
				binds = append(binds, fmt.Sprintf("(%s %s)", sym, a.S))
				b := *a
				b.S = sym
				a = &b
			}
			c.vars[p.Name] = a
		}
		r := c.tr(parseSpecExpr(sf.Body), rs)
		if r.GoT == nil {
			r = r.withGo(rt)
		}
		if len(binds) > 0 {
			rr := *r
			rr.S = "(let (" + strings.Join(binds, " ") + ") " + r.S + ")"
			rr.Op, rr.Args = "", nil
			return &rr
		}
		return r
	}
	// uninterpreted (declared here) or raw (declared by an smt block)
	name := "spec$" + sf.Name
	if sf.Raw {
		name = sf.Name
	} else {
		var ps []string
		for _, a := range args {
			ps = append(ps, a.Sort.SMT())
		}
		x.enc.decl(name, fmt.Sprintf("(declare-fun %s (%s) %s)", name, strings.Join(ps, " "), rs.SMT()))
	}
	x.enc.uses["spec func "+sf.Name+pick(sf.Raw, " (defined in raw SMT)", " (uninterpreted)")] = true
	x.enc.usedSpec[sf.Name] = true
	var r *T
	if len(args) == 0 {
		r = mk(name, rs)
	} else {
		r = mk(app(name, args...), rs)
	}
	r.GoT = rt
	r.Op, r.Args = "spec:"+sf.Name, args
	return r
}

func minmax(isMin bool, a, b *T) *T {
	var lt string
	switch a.Sort.Kind {
	case KBV:
		lt = pick(a.Sort.Signed, "bvslt", "bvult")
	case KInt:
		lt = "<"
	default:
		fail("min/max on %s", a.Sort.SMT())
	}
	c := mk(sapp(lt, a.S, b.S), sBool)
	if isMin {
		return tIte(c, a, b)
	}
	return tIte(c, b, a)
}

func mapLen(e *Enc, st *State, m *T, mt *types.Map) *T {
	ks, vs := e.sortOf(mt.Key()), e.sortOf(mt.Elem())
	h := st.get(mapHeap(ks, vs, "cnt"), arrSort(sRef, sI64))
	return sel(h, m, sI64)
}

func (x *Ex) convert(a *T, so *Sort, t types.Type) *T {
	if a.Sort.Same(so) || a.Sort.SMT() == so.SMT() {
		r := *a
		r.Sort = so
		r.GoT = t
		return &r
	}
	switch {
	case a.Sort.Kind == KBV && so.Kind == KBV:
		return bvResize(a, so).withGo(t)
	case a.Sort.Kind == KBV && so.Kind == KInt:
		nat := sapp("bv2nat", a.S)
		if a.Sort.Signed {
			pow := new(strings.Builder)
			fmt.Fprintf(pow, "%s", pow2(a.Sort.W))
			return mk(sapp("ite", sapp("bvslt", a.S, bvLit(0, a.Sort.W)), sapp("-", nat, pow.String()), nat), sInt)
		}
		return mk(nat, sInt)
	case a.Sort.Kind == KInt && so.Kind == KBV:
		return mk(sapp(fmt.Sprintf("(_ int2bv %d)", so.W), a.S), so).withGo(t)
	}
	fail("unsupported conversion %s -> %s", a.Sort.SMT(), so.SMT())
	return nil
}

func pow2(w int) string {
	c := constant.Shift(constant.MakeInt64(1), token.SHL, uint(w))
	return c.ExactString()
}

func bvResize(a *T, so *Sort) *T {
	switch {
	case a.Sort.W == so.W:
		return mk(a.S, so)
	case a.Sort.W < so.W:
		if a.Sort.Signed {
			return mk(fmt.Sprintf("((_ sign_extend %d) %s)", so.W-a.Sort.W, a.S), so)
		}
		return mk(fmt.Sprintf("((_ zero_extend %d) %s)", so.W-a.Sort.W, a.S), so)
	default:
		return mk(fmt.Sprintf("((_ extract %d 0) %s)", so.W-1, a.S), so)
	}
}

// canonTerm: canonical header key of a term; literals are computed by the real function.
func (e *Enc) canonTerm(a *T) *T {
	for lit, sym := range e.lits {
		if sym == a.S {
			e.uses["textproto.CanonicalMIMEHeaderKey on string literals is evaluated by running the real function (go1.26.8) at check time"] = true
			return e.strLit(textproto.CanonicalMIMEHeaderKey(lit))
		}
	}
	e.decl("canon", "(declare-fun canon (Str) Str)")
	e.decl("canon-idem", "(assert (forall ((s Str)) (! (= (canon (canon s)) (canon s)) :pattern ((canon s)))))")
	e.uses["http.CanonicalHeaderKey on non-literal names is an uninterpreted idempotent function"] = true
	return mk(sapp("canon", a.S), sStr)
}

// genericNamed resolves pkg.Name (or Name) to a generic named type.
func (x *Ex) genericNamed(e ast.Expr) types.Type {
	var obj types.Object
	switch v := e.(type) {
	case *ast.SelectorExpr:
		if id, ok := v.X.(*ast.Ident); ok {
			if p := x.w.pkgByName(id.Name); p != nil {
				obj = p.Scope().Lookup(v.Sel.Name)
			}
		}
	case *ast.Ident:
		if x.pkg != nil {
			obj = x.pkg.Scope().Lookup(v.Name)
		}
	}
	tn, ok := obj.(*types.TypeName)
	if !ok {
		return nil
	}
	switch t := tn.Type().(type) {
	case *types.Named:
		if t.TypeParams().Len() > 0 {
			return t
		}
	case *types.Alias:
		if t.TypeParams().Len() > 0 {
			return t
		}
	}
	return nil
}
