package main

// Sorts, terms and the solver race.

import (
	"bytes"
	"context"
	"crypto/sha256"
	"encoding/hex"
	"encoding/json"
	"fmt"
	"go/types"
	"os"
	"os/exec"
	"path/filepath"
	"sort"
	"strings"
	"sync"
	"time"
)

type SortKind int

const (
	KBool SortKind = iota
	KBV
	KInt // mathematical integer (spec only)
	KStr
	KRef
	KIface
	KFn
	KF64
	KSlice
	KStruct
	KOpaque
	KTuple
	KArray // spec-level SMT array (ghost maps)
)

type Sort struct {
	Kind   SortKind
	W      int
	Signed bool
	Name   string  // KStruct / KOpaque: smt sort name
	Elems  []*Sort // KTuple
	Key    *Sort   // KArray
	Val    *Sort   // KArray
}

var (
	sBool  = &Sort{Kind: KBool}
	sInt   = &Sort{Kind: KInt}
	sStr   = &Sort{Kind: KStr}
	sRef   = &Sort{Kind: KRef}
	sIface = &Sort{Kind: KIface}
	sFn    = &Sort{Kind: KFn}
	sF64   = &Sort{Kind: KF64}
	sSlice = &Sort{Kind: KSlice}
	sI64   = &Sort{Kind: KBV, W: 64, Signed: true}
	sU64   = &Sort{Kind: KBV, W: 64}
	sU8    = &Sort{Kind: KBV, W: 8}
	sI32   = &Sort{Kind: KBV, W: 32, Signed: true}
)

func bvSort(w int, signed bool) *Sort { return &Sort{Kind: KBV, W: w, Signed: signed} }

func (s *Sort) SMT() string {
	switch s.Kind {
	case KBool:
		return "Bool"
	case KBV:
		return fmt.Sprintf("(_ BitVec %d)", s.W)
	case KInt, KRef:
		return "Int"
	case KStr:
		return "Str"
	case KIface:
		return "Iface"
	case KFn:
		return "Fn"
	case KF64:
		return "F64"
	case KSlice:
		return "Slice"
	case KStruct, KOpaque:
		return s.Name
	case KArray:
		return "(Array " + s.Key.SMT() + " " + s.Val.SMT() + ")"
	case KTuple:
		return "TUPLE"
	}
	return "?"
}

// Key is a string usable inside SMT symbol names.
func (s *Sort) KeyS() string {
	switch s.Kind {
	case KBV:
		return fmt.Sprintf("bv%d", s.W)
	case KInt:
		return "int"
	case KRef:
		return "ref"
	case KArray:
		return "arr_" + s.Key.KeyS() + "_" + s.Val.KeyS()
	}
	return strings.NewReplacer("(", "", ")", "", " ", "_").Replace(s.SMT())
}

func (s *Sort) Same(o *Sort) bool {
	if s == nil || o == nil {
		return false
	}
	if s.Kind != o.Kind {
		// Ref and Int are both Int in SMT
		return false
	}
	switch s.Kind {
	case KBV:
		return s.W == o.W
	case KStruct, KOpaque:
		return s.Name == o.Name
	case KArray:
		return s.Key.Same(o.Key) && s.Val.Same(o.Val)
	case KTuple:
		if len(s.Elems) != len(o.Elems) {
			return false
		}
		for i := range s.Elems {
			if !s.Elems[i].Same(o.Elems[i]) {
				return false
			}
		}
	}
	return true
}

// T is an SMT term with its sort and (when known) its Go type.
type T struct {
	S     string
	Sort  *Sort
	GoT   types.Type
	Tuple []*T
	// structural hints
	Op   string
	Args []*T
}

func mk(s string, so *Sort) *T { return &T{S: s, Sort: so} }

func (t *T) withGo(g types.Type) *T {
	c := *t
	c.GoT = g
	return &c
}

func app(op string, args ...*T) string {
	var b strings.Builder
	b.WriteString("(")
	b.WriteString(op)
	for _, a := range args {
		b.WriteString(" ")
		b.WriteString(a.S)
	}
	b.WriteString(")")
	return b.String()
}

func sapp(op string, args ...string) string {
	return "(" + op + " " + strings.Join(args, " ") + ")"
}

func tTrue() *T  { return mk("true", sBool) }
func tFalse() *T { return mk("false", sBool) }

func tNot(a *T) *T {
	if a.S == "true" {
		return tFalse()
	}
	if a.S == "false" {
		return tTrue()
	}
	return mk(sapp("not", a.S), sBool)
}
func tAnd(xs ...*T) *T {
	var parts []string
	for _, x := range xs {
		if x.S == "true" {
			continue
		}
		if x.S == "false" {
			return tFalse()
		}
		parts = append(parts, x.S)
	}
	if len(parts) == 0 {
		return tTrue()
	}
	if len(parts) == 1 {
		return mk(parts[0], sBool)
	}
	return mk(sapp("and", parts...), sBool)
}
func tOr(xs ...*T) *T {
	var parts []string
	for _, x := range xs {
		if x.S == "false" {
			continue
		}
		if x.S == "true" {
			return tTrue()
		}
		parts = append(parts, x.S)
	}
	if len(parts) == 0 {
		return tFalse()
	}
	if len(parts) == 1 {
		return mk(parts[0], sBool)
	}
	return mk(sapp("or", parts...), sBool)
}
func tImp(a, b *T) *T {
	if a.S == "true" {
		return b
	}
	return mk(sapp("=>", a.S, b.S), sBool)
}
func tEq(a, b *T) *T { return mk(sapp("=", a.S, b.S), sBool) }
func tIte(c, a, b *T) *T {
	if c.S == "true" {
		return a
	}
	if c.S == "false" {
		return b
	}
	if a.S == b.S {
		return a
	}
	r := mk(sapp("ite", c.S, a.S, b.S), a.Sort)
	r.GoT = a.GoT
	return r
}

func bvLit(v int64, w int) string {
	if w == 64 {
		return fmt.Sprintf("#x%016x", uint64(v))
	}
	if w > 64 {
		return fmt.Sprintf("((_ sign_extend %d) #x%016x)", w-64, uint64(v))
	}
	mask := uint64(1)<<uint(w) - 1
	return fmt.Sprintf("(_ bv%d %d)", uint64(v)&mask, w)
}

func bvLitU(v uint64, w int) string {
	if w == 64 {
		return fmt.Sprintf("#x%016x", v)
	}
	if w > 64 {
		return fmt.Sprintf("((_ zero_extend %d) #x%016x)", w-64, v)
	}
	mask := uint64(1)<<uint(w) - 1
	return fmt.Sprintf("(_ bv%d %d)", v&mask, w)
}

func tBV(v int64, so *Sort) *T { return mk(bvLit(v, so.W), so) }

// ---------------------------------------------------------------------------
// Solver race

type SolveResult struct {
	Status  string // unsat | sat | unknown | timeout | error
	Solver  string
	Seconds float64
	Output  string // full output of the deciding (or last) solver
	All     map[string]string
	Cached  bool
}

type solverSpec struct {
	name string
	argv func(file string, timeoutS int) []string
	pre  string
}

var solvers = []solverSpec{
	{"z3-new-5.1.0", func(f string, t int) []string { return []string{"z3-new", fmt.Sprintf("-T:%d", t), f} }, ""},
	{"z3-4.8.12", func(f string, t int) []string { return []string{"z3", fmt.Sprintf("-T:%d", t), f} }, ""},
	{"cvc5-1.0.3", func(f string, t int) []string {
		return []string{"cvc5", "--produce-models", fmt.Sprintf("--tlimit=%d", t*1000), f}
	}, ""},
}

// retrySolvers: the portfolio used when the first attempt of an obligation did not finish: the three
// solvers plus z3-new under three other random seeds (slow quantified goals vary by a factor of five
// between seeds; the answer is taken from whichever instance finishes first).
var retrySolvers = append(append([]solverSpec{}, solvers...),
	solverSpec{"z3-new-5.1.0/seed1", func(f string, t int) []string {
		return []string{"z3-new", fmt.Sprintf("-T:%d", t), "smt.random_seed=1", "sat.random_seed=1", f}
	}, ""},
	solverSpec{"z3-new-5.1.0/seed2", func(f string, t int) []string {
		return []string{"z3-new", fmt.Sprintf("-T:%d", t), "smt.random_seed=2", "sat.random_seed=2", f}
	}, ""},
	solverSpec{"z3-new-5.1.0/seed3", func(f string, t int) []string {
		return []string{"z3-new", fmt.Sprintf("-T:%d", t), "smt.random_seed=3", "sat.random_seed=3", f}
	}, ""},
)

var scratchDir string
var scratchOnce sync.Once

func scratch() string {
	scratchOnce.Do(func() {
		d, err := os.MkdirTemp("", "govc-")
		if err != nil {
			panic(err)
		}
		scratchDir = d
	})
	return scratchDir
}

func cleanupScratch() {
	if scratchDir != "" {
		os.RemoveAll(scratchDir)
	}
}

// firstLine returns the first non-empty line of solver output.
func firstLine(s string) string {
	for _, l := range strings.Split(s, "\n") {
		l = strings.TrimSpace(l)
		if l != "" {
			return l
		}
	}
	return ""
}

// solve runs the installed solvers concurrently on the query. needAgree>1 asks
// that many solvers to report unsat before returning unsat (thorough tier).
// Query cache: an obligation whose SMT text is byte-identical to one already
// discharged (unsat) is not sent to the solvers again. Keyed by sha256 of the
// query; only unsat answers are stored. Directory: $GOVC_CACHE (default
// /verif/.qcache); GOVC_NOCACHE=1 disables it.
func cacheDir() string {
	if os.Getenv("GOVC_NOCACHE") == "1" {
		return ""
	}
	if d := os.Getenv("GOVC_CACHE"); d != "" {
		return d
	}
	return "/verif/.qcache"
}

func cacheKey(query string, needAgree int) string {
	h := sha256.Sum256([]byte(fmt.Sprintf("agree=%d\n", needAgree) + query))
	return hex.EncodeToString(h[:])
}

func solve(name, query string, timeoutS int, needAgree int) SolveResult {
	return solveWith(solvers, name, query, timeoutS, needAgree)
}

// solveRetry: second attempt with the larger portfolio.
func solveRetry(name, query string, timeoutS int, needAgree int) SolveResult {
	return solveWith(retrySolvers, name, query, timeoutS, needAgree)
}

func solveWith(solvers []solverSpec, name, query string, timeoutS int, needAgree int) SolveResult {
	cd := cacheDir()
	var ck string
	if cd != "" {
		ck = filepath.Join(cd, cacheKey(query, needAgree))
		if b, err := os.ReadFile(ck); err == nil {
			var r SolveResult
			if json.Unmarshal(b, &r) == nil && r.Status == "unsat" {
				r.Cached = true
				return r
			}
		}
	}
	r := solveUncached(solvers, name, query, timeoutS, needAgree)
	if cd != "" && r.Status == "unsat" {
		os.MkdirAll(cd, 0o755)
		if b, err := json.Marshal(r); err == nil {
			os.WriteFile(ck, b, 0o644)
		}
	}
	return r
}

func solveUncached(solvers []solverSpec, name, query string, timeoutS int, needAgree int) SolveResult {
	file := filepath.Join(scratch(), sanitize(name)+".smt2")
	if err := os.WriteFile(file, []byte(query), 0o644); err != nil {
		return SolveResult{Status: "error", Output: err.Error()}
	}
	defer os.Remove(file)
	type one struct {
		solver string
		status string
		out    string
		secs   float64
	}
	ctx, cancel := context.WithCancel(context.Background())
	defer cancel()
	ch := make(chan one, len(solvers))
	for _, sv := range solvers {
		sv := sv
		go func() {
			start := time.Now()
			argv := sv.argv(file, timeoutS)
			cctx, ccancel := context.WithTimeout(ctx, time.Duration(timeoutS+2)*time.Second)
			defer ccancel()
			cmd := exec.CommandContext(cctx, argv[0], argv[1:]...)
			var out bytes.Buffer
			cmd.Stdout = &out
			cmd.Stderr = &out
			_ = cmd.Run()
			fl := firstLine(out.String())
			st := "unknown"
			switch {
			case fl == "unsat":
				st = "unsat"
			case fl == "sat":
				st = "sat"
			case strings.Contains(fl, "timeout") || cctx.Err() != nil:
				st = "timeout"
			case fl == "unknown":
				st = "unknown"
			default:
				st = "error"
			}
			ch <- one{sv.name, st, out.String(), time.Since(start).Seconds()}
		}()
	}
	res := SolveResult{Status: "unknown", All: map[string]string{}}
	unsatN := 0
	var firstUnsat *one
	for range solvers {
		o := <-ch
		res.All[o.solver] = o.status
		switch o.status {
		case "unsat":
			unsatN++
			if firstUnsat == nil {
				oo := o
				firstUnsat = &oo
			}
			if unsatN >= needAgree {
				res.Status, res.Solver, res.Seconds, res.Output = "unsat", firstUnsat.solver, firstUnsat.secs, firstUnsat.out
				if needAgree > 1 {
					res.Solver = fmt.Sprintf("%s (+%d agreeing)", firstUnsat.solver, unsatN-1)
				}
				return res
			}
		case "sat":
			res.Status, res.Solver, res.Seconds, res.Output = "sat", o.solver, o.secs, o.out
			return res
		default:
			if res.Output == "" || o.status == "error" {
				res.Output += "[" + o.solver + "] " + truncate(o.out, 600) + "\n"
			}
			if res.Status != "timeout" {
				res.Status = o.status
			}
			res.Seconds = o.secs
		}
	}
	if firstUnsat != nil {
		// fewer than needAgree solvers agreed but none disagreed
		res.Status, res.Solver, res.Seconds, res.Output = "unsat", firstUnsat.solver+" (single)", firstUnsat.secs, firstUnsat.out
	}
	return res
}

func truncate(s string, n int) string {
	if len(s) <= n {
		return s
	}
	return s[:n] + "…"
}

func sanitize(s string) string {
	var b strings.Builder
	for _, r := range s {
		switch {
		case r >= 'a' && r <= 'z', r >= 'A' && r <= 'Z', r >= '0' && r <= '9', r == '-', r == '_', r == '.':
			b.WriteRune(r)
		default:
			b.WriteByte('_')
		}
	}
	if b.Len() > 150 {
		return b.String()[:150]
	}
	return b.String()
}

func sortedKeys[V any](m map[string]V) []string {
	ks := make([]string, 0, len(m))
	for k := range m {
		ks = append(ks, k)
	}
	sort.Strings(ks)
	return ks
}
