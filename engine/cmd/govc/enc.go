package main

// Enc: per-function encoder state — declarations made on demand, the linear
// list of assumptions, string literals, struct datatypes, heaps.

import (
	"fmt"
	"go/constant"
	"go/types"
	"strconv"
	"strings"
)

const prelude = `(set-option :produce-models true)
(set-logic ALL)
(declare-sort Str 0)
(declare-sort Iface 0)
(declare-sort Fn 0)
(declare-sort F64 0)
(declare-datatypes ((Slice 0)) (((mkSlice (sl_arr Int) (sl_off (_ BitVec 64)) (sl_len (_ BitVec 64)) (sl_cap (_ BitVec 64))))))
(declare-fun slen (Str) (_ BitVec 64))
(declare-fun sat (Str (_ BitVec 64)) (_ BitVec 8))
(declare-fun sconcat (Str Str) Str)
(declare-fun ssub (Str (_ BitVec 64) (_ BitVec 64)) Str)
(declare-fun sbyte ((_ BitVec 8)) Str)
(declare-fun srune ((_ BitVec 32)) Str)
(declare-fun str2bytes (Str) Str)
(declare-fun sidx ((_ BitVec 64) (_ BitVec 64)) (_ BitVec 64))
(assert (forall ((o (_ BitVec 64)) (i (_ BitVec 64))) (! (= (sidx o i) (bvadd o i)) :pattern ((sidx o i)))))
(declare-const nilIface Iface)
(declare-fun ityp (Iface) Int)
(declare-const nilFn Fn)
(declare-const nilSlice Slice)
(assert (= nilSlice (mkSlice 0 #x0000000000000000 #x0000000000000000 #x0000000000000000)))
(assert (= (ityp nilIface) 0))
(assert (forall ((s Str)) (! (bvult (slen s) #x4000000000000000) :pattern ((slen s)))))
(assert (forall ((a Str) (b Str)) (! (=> (and (bvult (slen a) #x2000000000000000) (bvult (slen b) #x2000000000000000)) (= (slen (sconcat a b)) (bvadd (slen a) (slen b)))) :pattern ((sconcat a b)))))
(assert (forall ((a Str) (b Str) (i (_ BitVec 64))) (! (=> (and (bvult (slen a) #x2000000000000000) (bvult (slen b) #x2000000000000000) (bvsle #x0000000000000000 i) (bvslt i (bvadd (slen a) (slen b)))) (= (sat (sconcat a b) i) (ite (bvslt i (slen a)) (sat a i) (sat b (bvsub i (slen a)))))) :pattern ((sat (sconcat a b) i)))))
(assert (forall ((s Str) (lo (_ BitVec 64)) (hi (_ BitVec 64))) (! (=> (and (bvsle #x0000000000000000 lo) (bvsle lo hi) (bvsle hi (slen s))) (= (slen (ssub s lo hi)) (bvsub hi lo))) :pattern ((ssub s lo hi)))))
(assert (forall ((s Str) (lo (_ BitVec 64)) (hi (_ BitVec 64)) (i (_ BitVec 64))) (! (=> (and (bvsle #x0000000000000000 lo) (bvsle lo hi) (bvsle hi (slen s)) (bvsle #x0000000000000000 i) (bvslt i (bvsub hi lo))) (= (sat (ssub s lo hi) i) (sat s (bvadd lo i)))) :pattern ((sat (ssub s lo hi) i)))))
`

type cmd struct {
	seq  int
	text string
	obl  bool // assumed because an obligation with this goal was generated just before
	blk  int  // basic block in which the fact was established (-1: function entry / global)
	props []string // precondition tagged for these properties only: left out of obligations that serve none of them
}

type Enc struct {
	w        *World
	declSeen map[string]bool
	decls    []string // global declarations (no ordering dependency on cmds)
	cmds     []cmd
	seq      int
	lits     map[string]string // literal -> symbol
	litOrder []string
	typeTags map[string]int
	fresh    int
	structs  map[string]*Sort
	uses     map[string]bool // assumptions actually used (extern contracts, axioms, …)
	usedSpec map[string]bool
	reveal   map[string]bool // opaque spec functions whose definition is visible in this encoding
	noLemmas bool
	curBlk   int    // block being encoded (-1 outside any block)
	lemmaLimit string // when set: only lemmas declared before this one may be used
	axioms   []string
	axDone   map[string]bool
	usesLemma []string
	pkg      *types.Package
}

func newEnc(w *World, pkg *types.Package) *Enc {
	return &Enc{
		w: w, declSeen: map[string]bool{}, lits: map[string]string{},
		typeTags: map[string]int{}, structs: map[string]*Sort{}, uses: map[string]bool{}, pkg: pkg,
		usedSpec: map[string]bool{}, axDone: map[string]bool{}, reveal: map[string]bool{}, curBlk: -1,
	}
}

func (e *Enc) decl(name, text string) {
	if e.declSeen[name] {
		return
	}
	e.declSeen[name] = true
	e.decls = append(e.decls, text)
}

func (e *Enc) declConst(name string, so *Sort) {
	e.decl(name, fmt.Sprintf("(declare-const %s %s)", name, so.SMT()))
}

func (e *Enc) assume(t *T) {
	if t.S == "true" {
		return
	}
	e.seq++
	e.cmds = append(e.cmds, cmd{seq: e.seq, text: "(assert " + t.S + ")", blk: e.curBlk})
}

// assumeTagged records an entry precondition that only matters to the given properties.
func (e *Enc) assumeTagged(t *T, props []string) {
	if t.S == "true" {
		return
	}
	e.seq++
	e.cmds = append(e.cmds, cmd{seq: e.seq, text: "(assert " + t.S + ")", blk: e.curBlk, props: props})
}

func intersects(a, b []string) bool {
	for _, x := range a {
		for _, y := range b {
			if x == y {
				return true
			}
		}
	}
	return false
}

// assumeAt records a fact that belongs to block blk (used for lazily created merges).
func (e *Enc) assumeAt(t *T, blk int) {
	if t.S == "true" {
		return
	}
	e.seq++
	e.cmds = append(e.cmds, cmd{seq: e.seq, text: "(assert " + t.S + ")", blk: blk})
}

// define introduces a named constant equal to the term (keeps queries small).
func (e *Enc) define(hint string, t *T) *T {
	if len(t.S) < 40 {
		return t
	}
	e.fresh++
	name := fmt.Sprintf("%s!%d", hint, e.fresh)
	e.declConst(name, t.Sort)
	r := mk(name, t.Sort)
	r.GoT = t.GoT
	r.Op, r.Args = t.Op, t.Args
	e.seq++
	e.cmds = append(e.cmds, cmd{seq: e.seq, text: sapp("assert", sapp("=", name, t.S)), blk: e.curBlk})
	return r
}

func (e *Enc) freshConst(hint string, so *Sort) *T {
	e.fresh++
	name := fmt.Sprintf("%s!%d", hint, e.fresh)
	if so.Kind == KTuple {
		t := &T{Sort: so}
		for i, es := range so.Elems {
			t.Tuple = append(t.Tuple, e.freshConst(fmt.Sprintf("%s.%d", hint, i), es))
		}
		return t
	}
	e.declConst(name, so)
	return mk(name, so)
}

// ---- strings -------------------------------------------------------------

func (e *Enc) strLit(s string) *T {
	if sym, ok := e.lits[s]; ok {
		return mk(sym, sStr)
	}
	sym := fmt.Sprintf("lit%d", len(e.lits))
	if isIdentLike(s) {
		sym = "lit$" + s
	}
	e.lits[s] = sym
	e.litOrder = append(e.litOrder, s)
	e.declConst(sym, sStr)
	return mk(sym, sStr)
}

func isIdentLike(s string) bool {
	if s == "" || len(s) > 40 {
		return false
	}
	for _, r := range s {
		if !(r >= 'a' && r <= 'z' || r >= 'A' && r <= 'Z' || r >= '0' && r <= '9' || r == '-' || r == '_') {
			return false
		}
	}
	return true
}

// litAxioms are emitted at the very end (all literals known): lengths, bytes, distinctness.
func (e *Enc) litAxioms() string {
	var b strings.Builder
	for _, s := range e.litOrder {
		sym := e.lits[s]
		fmt.Fprintf(&b, "(assert (= (slen %s) %s))\n", sym, bvLit(int64(len(s)), 64))
		if len(s) <= 64 {
			for i := 0; i < len(s); i++ {
				fmt.Fprintf(&b, "(assert (= (sat %s %s) %s))\n", sym, bvLit(int64(i), 64), bvLit(int64(s[i]), 8))
			}
		}
	}
	if len(e.litOrder) > 1 {
		b.WriteString("(assert (distinct")
		for _, s := range e.litOrder {
			b.WriteString(" " + e.lits[s])
		}
		b.WriteString("))\n")
	}
	// a string of length 0 is the empty literal
	if sym, ok := e.lits[""]; ok {
		fmt.Fprintf(&b, "(assert (forall ((s Str)) (! (=> (= (slen s) #x0000000000000000) (= s %s)) :pattern ((slen s)))))\n", sym)
	}
	return b.String()
}

// ---- sorts from Go types ---------------------------------------------------

func (e *Enc) typeTag(t types.Type) int {
	k := types.TypeString(t, nil)
	if n, ok := e.typeTags[k]; ok {
		return n
	}
	n := len(e.typeTags) + 1
	e.typeTags[k] = n
	return n
}

var transparentStd = map[string]bool{
	"net/http.Request": true, "net/http.Response": true, "net/url.URL": true,
}

func isRepoPkg(p *types.Package) bool {
	return p != nil && strings.HasPrefix(p.Path(), "github.com/bartventer/httpcache")
}

func shortTypeName(n *types.Named) string {
	o := n.Obj()
	if o.Pkg() == nil {
		return o.Name()
	}
	return o.Pkg().Name() + "." + o.Name()
}

func (e *Enc) sortOf(t types.Type) *Sort {
	t = types.Unalias(t)
	switch tt := t.(type) {
	case *types.Basic:
		switch {
		case tt.Info()&types.IsBoolean != 0:
			return sBool
		case tt.Info()&types.IsString != 0:
			return sStr
		case tt.Info()&types.IsFloat != 0:
			return sF64
		case tt.Info()&types.IsInteger != 0:
			w := 64
			switch tt.Kind() {
			case types.Int8, types.Uint8:
				w = 8
			case types.Int16, types.Uint16:
				w = 16
			case types.Int32, types.Uint32:
				w = 32
			}
			return bvSort(w, tt.Info()&types.IsUnsigned == 0)
		case tt.Kind() == types.UnsafePointer, tt.Kind() == types.UntypedNil:
			return sRef
		}
	case *types.Named:
		if st, ok := tt.Underlying().(*types.Struct); ok {
			full := ""
			if tt.Obj().Pkg() != nil {
				full = tt.Obj().Pkg().Path() + "." + tt.Obj().Name()
			}
			if isRepoPkg(tt.Obj().Pkg()) || transparentStd[full] {
				return e.structSort(shortTypeName(tt), st)
			}
			name := "O$" + shortTypeName(tt)
			e.decl(name, "(declare-sort "+name+" 0)")
			e.declConst("zero$"+name, &Sort{Kind: KOpaque, Name: name})
			return &Sort{Kind: KOpaque, Name: name}
		}
		return e.sortOf(tt.Underlying())
	case *types.Pointer, *types.Map, *types.Chan:
		return sRef
	case *types.Slice:
		return sSlice
	case *types.Array:
		// array VALUES are SMT arrays; pointers to arrays are references whose cells live in the element heap
		return arrSort(sI64, e.sortOf(tt.Elem()))
	case *types.Signature:
		return sFn
	case *types.Interface:
		return sIface
	case *types.Struct:
		return e.structSort("anon$"+sanitize(tt.String()), tt)
	case *types.Tuple:
		so := &Sort{Kind: KTuple}
		for i := 0; i < tt.Len(); i++ {
			so.Elems = append(so.Elems, e.sortOf(tt.At(i).Type()))
		}
		return so
	case *types.TypeParam:
		return sIface
	}
	return sIface
}

func (e *Enc) structSort(name string, st *types.Struct) *Sort {
	sname := "S$" + name
	if so, ok := e.structs[sname]; ok {
		return so
	}
	so := &Sort{Kind: KStruct, Name: sname}
	e.structs[sname] = so
	var fields []string
	for i := 0; i < st.NumFields(); i++ {
		f := st.Field(i)
		fs := e.sortOf(f.Type())
		fields = append(fields, fmt.Sprintf("(%s %s)", selName(sname, f.Name(), i), fs.SMT()))
	}
	if len(fields) == 0 {
		fields = append(fields, fmt.Sprintf("(%s$unit Bool)", sname))
	}
	e.decl(sname, fmt.Sprintf("(declare-datatypes ((%s 0)) (((mk%s %s))))", sname, sname, strings.Join(fields, " ")))
	return so
}

func selName(sname, field string, i int) string {
	if field == "_" {
		field = "blank" + strconv.Itoa(i)
	}
	return sname + "." + field
}

func structOf(t types.Type) *types.Struct {
	t = types.Unalias(t)
	if p, ok := t.Underlying().(*types.Pointer); ok {
		t = p.Elem()
	}
	st, _ := t.Underlying().(*types.Struct)
	return st
}

func fieldIndex(st *types.Struct, name string) int {
	for i := 0; i < st.NumFields(); i++ {
		if st.Field(i).Name() == name {
			return i
		}
	}
	return -1
}

// zero value of a Go type
func (e *Enc) zero(t types.Type) *T {
	so := e.sortOf(t)
	return e.zeroOfSort(so, t)
}

func (e *Enc) zeroOfSort(so *Sort, t types.Type) *T {
	var r *T
	switch so.Kind {
	case KBool:
		r = tFalse()
	case KBV:
		r = tBV(0, so)
	case KInt, KRef:
		r = mk("0", so)
	case KStr:
		r = e.strLit("")
	case KIface:
		r = mk("nilIface", so)
	case KFn:
		r = mk("nilFn", so)
	case KF64:
		e.declConst("f64$0", sF64)
		r = mk("f64$0", so)
	case KSlice:
		r = mk("nilSlice", so)
	case KOpaque:
		r = mk("zero$"+so.Name, so)
	case KStruct:
		st := structOf(t)
		var args []string
		if st != nil {
			for i := 0; i < st.NumFields(); i++ {
				args = append(args, e.zero(st.Field(i).Type()).S)
			}
		}
		if len(args) == 0 {
			args = []string{"true"}
		}
		r = mk(sapp("mk"+so.Name, args...), so)
	case KTuple:
		r = &T{Sort: so}
		tt, _ := t.(*types.Tuple)
		for i, es := range so.Elems {
			var et types.Type
			if tt != nil {
				et = tt.At(i).Type()
			}
			r.Tuple = append(r.Tuple, e.zeroOfSort(es, et))
		}
	case KArray:
		r = mk(sapp("(as const "+so.SMT()+")", e.zeroOfSort(so.Val, nil).S), so)
	}
	if r == nil {
		panic("zero: unsupported sort " + so.SMT())
	}
	r.GoT = t
	return r
}

// constant from go/constant
func (e *Enc) constTerm(v constant.Value, t types.Type) *T {
	so := e.sortOf(t)
	if v == nil {
		return e.zero(t)
	}
	var r *T
	switch so.Kind {
	case KBool:
		if constant.BoolVal(v) {
			r = tTrue()
		} else {
			r = tFalse()
		}
	case KBV:
		if so.Signed {
			i, _ := constant.Int64Val(constant.ToInt(v))
			r = tBV(i, so)
		} else {
			u, _ := constant.Uint64Val(constant.ToInt(v))
			r = mk(bvLitU(u, so.W), so)
		}
	case KStr:
		r = e.strLit(constant.StringVal(v))
	case KF64:
		f, _ := constant.Float64Val(v)
		name := "f64$" + sanitize(strconv.FormatFloat(f, 'g', -1, 64))
		e.declConst(name, sF64)
		r = mk(name, sF64)
		r.Op = "fconst:" + strconv.FormatFloat(f, 'g', -1, 64)
	case KInt:
		r = mk(v.ExactString(), sInt)
	default:
		return e.zero(t)
	}
	r.GoT = t
	return r
}

// ---- heaps ---------------------------------------------------------------

// State maps heap names to their current SMT term. Heaps are created on
// demand. A state is either a base state (untouched heaps are the constants
// of generation `gen`; gen 0 = function entry) or a lazy merge of parent
// states (untouched heaps are merged on first use).
type State struct {
	e       *Enc
	m       map[string]*T
	gen     int
	parents []*State
	conds   []*T
	blk     int // block at whose entry this merge happens
}

func (e *Enc) newState() *State { return &State{e: e, m: map[string]*T{}} }

func (s *State) clone() *State {
	n := &State{e: s.e, m: make(map[string]*T, len(s.m)), gen: s.gen, parents: s.parents, conds: s.conds, blk: s.blk}
	for k, v := range s.m {
		n.m[k] = v
	}
	return n
}

// havocAll forgets everything: every heap becomes a fresh generation constant.
func (s *State) havocAll() {
	oldNext := s.next()
	s.e.fresh++
	s.gen = s.e.fresh
	s.m = map[string]*T{}
	s.parents, s.conds = nil, nil
	// the allocation counter never decreases
	s.e.assume(mk(sapp(">=", s.next().S, oldNext.S), sBool))
}

func (e *Enc) baseHeap(gen int, name string, so *Sort) *T {
	sym := fmt.Sprintf("H%d$%s", gen, name)
	if !e.declSeen[sym] {
		e.declConst(sym, so)
		// nil maps are empty
		if strings.HasPrefix(name, "M$") && strings.HasSuffix(name, "$has") {
			e.decls = append(e.decls, fmt.Sprintf("(assert (= (select %s 0) ((as const %s) false)))", sym, so.Val.SMT()))
		}
		if strings.HasPrefix(name, "M$") && strings.HasSuffix(name, "$val") {
			// the value view of the nil map is one fixed (arbitrary) array
			nv := "nilvals$" + so.Val.KeyS()
			e.decl(nv, fmt.Sprintf("(declare-const %s %s)", nv, so.Val.SMT()))
			e.decls = append(e.decls, fmt.Sprintf("(assert (= (select %s 0) %s))", sym, nv))
		}
		if strings.HasPrefix(name, "M$") && strings.HasSuffix(name, "$cnt") {
			e.decls = append(e.decls, fmt.Sprintf("(assert (= (select %s 0) #x0000000000000000))", sym))
		}
		if name == allocHeap {
			e.decls = append(e.decls, fmt.Sprintf("(assert (> %s 0))", sym))
		}
	}
	return mk(sym, so)
}

func (e *Enc) entryHeap(name string, so *Sort) *T { return e.baseHeap(0, name, so) }

func (s *State) get(name string, so *Sort) *T {
	if t, ok := s.m[name]; ok {
		return t
	}
	if s.parents == nil {
		return s.e.baseHeap(s.gen, name, so)
	}
	terms := make([]*T, len(s.parents))
	same := true
	for i, p := range s.parents {
		terms[i] = p.get(name, so)
		if terms[i].S != terms[0].S {
			same = false
		}
	}
	if same {
		s.m[name] = terms[0]
		return terms[0]
	}
	s.e.fresh++
	sym := fmt.Sprintf("Hm$%s!%d", name, s.e.fresh)
	s.e.declConst(sym, so)
	nt := mk(sym, so)
	for i := range s.parents {
		s.e.assumeAt(tImp(s.conds[i], tEq(nt, terms[i])), s.blk)
	}
	s.m[name] = nt
	return nt
}

func (s *State) set(name string, t *T) { s.m[name] = t }

func arrSort(k, v *Sort) *Sort { return &Sort{Kind: KArray, Key: k, Val: v} }

// heap names
func fieldHeap(owner string, field string) string { return "F$" + owner + "." + field }
func cellHeap(so *Sort) string                     { return "C$" + so.KeyS() }
func elemHeap(so *Sort) string                     { return "E$" + so.KeyS() }
func mapHeap(k, v *Sort, part string) string       { return "M$" + k.KeyS() + "$" + v.KeyS() + "$" + part }

const allocHeap = "next"

func (s *State) next() *T { return s.get(allocHeap, sInt) }

func sel(a *T, i *T, valSort *Sort) *T { return mk(sapp("select", a.S, i.S), valSort) }
func sto(a *T, i *T, v *T) *T         { return mk(sapp("store", a.S, i.S, v.S), a.Sort) }

// ---- query assembly ------------------------------------------------------

func (e *Enc) query(upToSeq int, extra []string, getValues []string) string {
	return e.queryX(upToSeq, extra, getValues, false)
}

// queryX with skipObl leaves out the goals assumed after their own obligation
// (used by vacuity checks, which must not inherit a failed obligation's goal).
func (e *Enc) queryX(upToSeq int, extra []string, getValues []string, skipObl bool) string {
	return e.queryF(upToSeq, extra, getValues, skipObl, nil)
}

// queryF: as queryX, keeping only the facts established in blocks of `keep`
// (the blocks from which the obligation's block is reachable) and at entry.
func (e *Enc) queryF(upToSeq int, extra []string, getValues []string, skipObl bool, keep map[int]bool) string {
	return e.queryP(upToSeq, extra, getValues, skipObl, keep, nil)
}

// queryP: as queryF; a precondition tagged `props:` is dropped (sound: fewer assumptions) when
// the obligation serves none of those properties - it keeps unrelated quantified facts out.
func (e *Enc) queryP(upToSeq int, extra []string, getValues []string, skipObl bool, keep map[int]bool, obProps []string) string {
	var b strings.Builder
	b.WriteString(prelude)
	b.WriteString(e.w.rawSMT)
	for _, d := range e.decls {
		b.WriteString(d)
		b.WriteByte('\n')
	}
	for _, a := range e.axioms {
		b.WriteString(a)
		b.WriteByte('\n')
	}
	b.WriteString(e.litAxioms())
	for _, c := range e.cmds {
		if c.seq > upToSeq {
			break
		}
		if skipObl && c.obl {
			continue
		}
		if keep != nil && c.blk >= 0 && !keep[c.blk] {
			continue
		}
		if len(c.props) > 0 && len(obProps) > 0 && !intersects(c.props, obProps) {
			continue
		}
		b.WriteString(c.text)
		b.WriteByte('\n')
	}
	for _, x := range extra {
		b.WriteString(x)
		b.WriteByte('\n')
	}
	b.WriteString("(check-sat)\n")
	if len(getValues) > 0 {
		for _, g := range getValues {
			b.WriteString("(get-value (" + g + "))\n")
		}
	}
	return b.String()
}

// finalize instantiates every axiom that mentions a spec function used by this
// encoding (to a fixpoint: an axiom may bring in further functions).
func (e *Enc) finalize() error {
	var ferr error
	func() {
		defer func() {
			if r := recover(); r != nil {
				if se, ok := r.(specErr); ok {
					ferr = fmt.Errorf("axiom: %s", se.msg)
					return
				}
				panic(r)
			}
		}()
		for changed := true; changed; {
			changed = false
			// definitions of revealed opaque functions
			for _, name := range sortedKeys(e.usedSpec) {
				sf := e.w.specs.Funcs[name]
				if sf == nil || !sf.Opaque || !e.reveal[name] || e.axDone["reveal:"+name] {
					continue
				}
				e.axDone["reveal:"+name] = true
				changed = true
				st := e.newState()
				x := &Ex{enc: e, w: e.w, pkg: e.pkg, vars: map[string]*T{}, lets: map[string]string{}, cur: st, old: st}
				var binds, args []string
				for _, p := range sf.Params {
					ps, pt := x.typeFromString(p.Type)
					sym := "d$" + p.Name
					x.vars[p.Name] = mk(sym, ps).withGo(pt)
					binds = append(binds, fmt.Sprintf("(%s %s)", sym, ps.SMT()))
					args = append(args, sym)
				}
				rs, _ := x.typeFromString(sf.Result)
				body := x.tr(parseSpecExpr(sf.Body), rs)
				appl := sapp("spec$"+name, args...)
				e.axioms = append(e.axioms, fmt.Sprintf("(assert (forall (%s) (! (= %s %s) :pattern (%s))))", strings.Join(binds, " "), appl, body.S, appl))
			}
			for _, ax := range e.w.specs.Axioms {
				if e.lemmaLimit != "" && ax.Name == e.lemmaLimit {
					break // later lemmas (and axioms) are not available to this proof
				}
				if e.axDone[ax.Name] {
					continue
				}
				// An axiom is added when the encoding uses one of the uninterpreted / opaque specification
				// functions it mentions - except axioms marked `# narrow`, which need all of them (they
				// belong to a small theory whose instances create new terms; leaving an axiom out is
				// always sound).
				mention := false
				narrow := strings.Contains(ax.Expr, "{") // axioms with explicit triggers are the narrow ones
				for name, sf := range e.w.specs.Funcs {
					if sf == nil || sf.Raw || (sf.Body != "" && !sf.Opaque) {
						continue
					}
					if mentionsIdent(ax.Expr, name) {
						if e.usedSpec[name] {
							mention = true
							if !narrow {
								break
							}
						} else if narrow {
							mention = false
							break
						}
					}
				}
				if !mention || e.noLemmas && ax.Lemma {
					continue
				}
				e.axDone[ax.Name] = true
				changed = true
				st := e.newState()
				x := &Ex{enc: e, w: e.w, pkg: e.pkg, vars: map[string]*T{}, lets: map[string]string{}, cur: st, old: st}
				t := x.Bool(ax.Expr)
				e.axioms = append(e.axioms, "(assert "+addPatterns(t.S)+")")
				if ax.Lemma {
					e.usesLemma = append(e.usesLemma, ax.Name)
				} else {
					e.uses["axiom "+ax.Name+": "+ax.Expr] = true
				}
			}
		}
	}()
	return ferr
}

func mentionsIdent(expr, name string) bool {
	for i := 0; i+len(name) <= len(expr); i++ {
		if expr[i:i+len(name)] != name {
			continue
		}
		before := i == 0 || !isIdentChar(expr[i-1])
		after := i+len(name) == len(expr) || !isIdentChar(expr[i+len(name)])
		if before && after {
			return true
		}
	}
	return false
}

func isIdentChar(c byte) bool {
	return c == '_' || c >= '0' && c <= '9' || c >= 'a' && c <= 'z' || c >= 'A' && c <= 'Z'
}

// addPatterns leaves quantifier instantiation to the solvers' heuristics.
func addPatterns(s string) string { return s }
