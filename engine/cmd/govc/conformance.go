package main

// Conformance harness for the ASSUMED contracts of contracts/stdlib/std.go: /verif/conformance is a
// stdlib-only Go module (go 1.25, so it runs on the toolchain /repo is tested with) whose tests compare
// each behavioural assumption with what the real standard library does, on enumerated corner cases and
// seeded pseudo-random inputs. It is BOUNDED evidence about the trusted base, reported under
// coverage.stdlib_conformance; it is never counted as an obligation. A contradicted assumption makes
// the check UNDECIDED (the proof would rest on a false premise), never a VIOLATION of the property.

import (
	"bytes"
	"os"
	"os/exec"
	"path/filepath"
	"regexp"
	"strconv"
	"strings"
	"time"
)

type conformanceInfo struct {
	Label     string   `json:"label"`
	Module    string   `json:"module"`
	Toolchain string   `json:"toolchain,omitempty"`
	Groups    int      `json:"contract_groups"`
	Cases     int      `json:"cases"`
	Contracts []string `json:"contracts_exercised"`
	Failed    []string `json:"contradicted,omitempty"`
	Error     string   `json:"error,omitempty"`
	Seconds   float64  `json:"seconds"`
}

var conformanceLine = regexp.MustCompile(`CONFORMANCE groups=(\d+) cases=(\d+)`)

func runConformance(o checkOpts) conformanceInfo {
	ci := conformanceInfo{Label: "BOUNDED conformance test of assumed standard-library contracts (can only refute an assumption)", Module: filepath.Join(o.verif, "conformance")}
	start := time.Now()
	cmd := exec.Command("/usr/bin/go", "test", "-vet=off", "-count=1", "-v", "-timeout", "600s", ".")
	cmd.Dir = ci.Module
	var env []string
	for _, kv := range os.Environ() {
		if strings.HasPrefix(kv, "GOTOOLCHAIN=") || strings.HasPrefix(kv, "GOSUMDB=") || strings.HasPrefix(kv, "GOFLAGS=") || strings.HasPrefix(kv, "PATH=") || strings.HasPrefix(kv, "VERIF_TIER=") {
			continue
		}
		env = append(env, kv)
	}
	env = append(env, "GOFLAGS=-mod=mod", "GOPROXY=off", "PATH=/usr/bin:/bin:/usr/local/bin:/usr/local/go/bin", "VERIF_TIER="+o.tier)
	cmd.Env = env
	var buf bytes.Buffer
	cmd.Stdout, cmd.Stderr = &buf, &buf
	runErr := cmd.Run()
	seen := false
	for _, l := range strings.Split(buf.String(), "\n") {
		if m := conformanceLine.FindStringSubmatch(l); m != nil {
			seen = true
			ci.Groups, _ = strconv.Atoi(m[1])
			ci.Cases, _ = strconv.Atoi(m[2])
		} else if i := strings.Index(l, "CONTRACT "); i >= 0 {
			ci.Contracts = append(ci.Contracts, strings.TrimSpace(l[i+len("CONTRACT "):]))
		} else if strings.HasPrefix(strings.TrimSpace(l), "--- FAIL: ") {
			ci.Failed = append(ci.Failed, strings.TrimSpace(l))
		}
	}
	if !seen || (runErr != nil && len(ci.Failed) == 0) {
		ci.Error = truncate(buf.String(), 800)
		if runErr != nil {
			ci.Error = runErr.Error() + ": " + ci.Error
		}
	}
	if len(ci.Failed) > 0 {
		ci.Error = truncate(buf.String(), 1500)
	}
	gv := exec.Command("/usr/bin/go", "env", "GOVERSION")
	gv.Dir, gv.Env = ci.Module, env
	if out, err := gv.Output(); err == nil {
		ci.Toolchain = strings.TrimSpace(string(out))
	}
	ci.Seconds = round3(time.Since(start).Seconds())
	return ci
}
