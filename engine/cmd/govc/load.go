package main

import (
	"fmt"
	"go/constant"
	"go/types"
	"os"
	"regexp"
	"sort"
	"strings"

	"golang.org/x/tools/go/packages"
	"golang.org/x/tools/go/ssa"
	"golang.org/x/tools/go/ssa/ssautil"
)

type World struct {
	repo, verif string
	pkgs        []*packages.Package
	prog        *ssa.Program
	spkgs       []*ssa.Package
	specs       *Specs
	rawSMT      string
	rawDeclared map[string]bool
	funcs       map[string]*ssa.Function // by RelString(nil)
	byName      map[string]*types.Package
	notes       []string

	globInit    map[*ssa.Global]map[int]constInit // field index (-1 = whole) -> constant
	globMutated map[*ssa.Global]bool
	globNonNil  map[*ssa.Global]bool // initialised in init with errors.New / fmt.Errorf
}

type constInit struct {
	val constant.Value
	typ types.Type
}

var repoPatterns = []string{".", "./internal", "./store", "./store/driver", "./store/fscache", "./store/memcache", "./store/expapi", "./store/internal/registry"}

func loadWorld(repo, verif string) (*World, error) {
	w := &World{repo: repo, verif: verif, funcs: map[string]*ssa.Function{}, byName: map[string]*types.Package{}, rawDeclared: map[string]bool{}}
	cfg := &packages.Config{Mode: packages.LoadSyntax, Dir: repo, BuildFlags: []string{"-tags=verif"}, Env: append(os.Environ(), "GOFLAGS=-mod=mod", "GOPROXY=off", "GOSUMDB=off", "GOTOOLCHAIN=local", "PATH=/opt/veriftools/go1.26.8/bin:"+os.Getenv("PATH"))}
	pkgs, err := packages.Load(cfg, repoPatterns...)
	if err != nil {
		return nil, err
	}
	var errs []string
	for _, p := range pkgs {
		for _, e := range p.Errors {
			errs = append(errs, e.Error())
		}
	}
	if len(errs) > 0 {
		return nil, fmt.Errorf("package load errors:\n%s", strings.Join(errs, "\n"))
	}
	w.pkgs = pkgs
	w.prog, w.spkgs = ssautil.Packages(pkgs, ssa.InstantiateGenerics|ssa.GlobalDebug)
	w.prog.Build()
	for _, sp := range w.spkgs {
		if sp == nil {
			continue
		}
		w.indexPkg(sp)
	}
	// package names (imports of the repo packages, transitively one level)
	var visit func(p *types.Package, d int)
	visit = func(p *types.Package, d int) {
		if _, ok := w.byName[p.Name()]; !ok || isRepoPkg(p) {
			if old, ok := w.byName[p.Name()]; !ok || !isRepoPkg(old) {
				w.byName[p.Name()] = p
			}
		}
		if d > 0 {
			for _, q := range p.Imports() {
				visit(q, d-1)
			}
		}
	}
	for _, p := range pkgs {
		visit(p.Types, 1)
	}
	w.specs, err = loadSpecs(repo, verif, &w.notes)
	if err != nil {
		return nil, err
	}
	w.rawSMT = strings.Join(w.specs.RawSMT, "\n") + "\n"
	re := regexp.MustCompile(`\((?:declare-sort|declare-fun|define-fun|declare-const|define-fun-rec)\s+([^\s()]+)`)
	for _, m := range re.FindAllStringSubmatch(w.rawSMT, -1) {
		w.rawDeclared[m[1]] = true
	}
	w.scanGlobals()
	return w, nil
}

func (w *World) indexPkg(sp *ssa.Package) {
	var add func(f *ssa.Function)
	add = func(f *ssa.Function) {
		if f == nil {
			return
		}
		w.funcs[f.RelString(nil)] = f
		for _, a := range f.AnonFuncs {
			add(a)
		}
	}
	for _, m := range sp.Members {
		switch mm := m.(type) {
		case *ssa.Function:
			add(mm)
		case *ssa.Type:
			for _, t := range []types.Type{mm.Type(), types.NewPointer(mm.Type())} {
				ms := w.prog.MethodSets.MethodSet(t)
				for i := 0; i < ms.Len(); i++ {
					f := w.prog.MethodValue(ms.At(i))
					if f != nil && f.Synthetic == "" {
						add(f)
					}
				}
			}
		}
	}
}

func (w *World) pkgByName(name string) *types.Package { return w.byName[name] }

func (w *World) repoPkgs() []*types.Package {
	var out []*types.Package
	for _, p := range w.pkgs {
		out = append(out, p.Types)
	}
	return out
}

func (w *World) newEncFor(pkg *types.Package) *Enc {
	e := newEnc(w, pkg)
	for n := range w.rawDeclared {
		e.declSeen[n] = true
	}
	return e
}

// funcKey gives the contract lookup key of a callee.
func funcKey(f *ssa.Function) string {
	if o := f.Origin(); o != nil {
		f = o
	}
	return f.RelString(nil)
}

// ---- globals ---------------------------------------------------------------

func rootGlobal(v ssa.Value) (*ssa.Global, int, bool) {
	switch a := v.(type) {
	case *ssa.Global:
		return a, -1, true
	case *ssa.FieldAddr:
		if g, _, ok := rootGlobal(a.X); ok {
			return g, a.Field, true
		}
	case *ssa.IndexAddr:
		if g, _, ok := rootGlobal(a.X); ok {
			return g, -2, true
		}
	}
	return nil, 0, false
}

func (w *World) scanGlobals() {
	w.globInit = map[*ssa.Global]map[int]constInit{}
	w.globMutated = map[*ssa.Global]bool{}
	w.globNonNil = map[*ssa.Global]bool{}
	for _, f := range w.funcs {
		isInit := f.Name() == "init" && f.Parent() == nil
		// composite literals built in a local and then stored whole into a global
		localConst := map[*ssa.Alloc]map[int]constInit{}
		for _, b := range f.Blocks {
			for _, in := range b.Instrs {
				switch i := in.(type) {
				case *ssa.Store:
					if isInit {
						if fa, ok := i.Addr.(*ssa.FieldAddr); ok {
							if al, ok := fa.X.(*ssa.Alloc); ok {
								if c, isC := i.Val.(*ssa.Const); isC {
									if localConst[al] == nil {
										localConst[al] = map[int]constInit{}
									}
									localConst[al][fa.Field] = constInit{c.Value, c.Type()}
								}
								continue
							}
						}
						if g, ok := i.Addr.(*ssa.Global); ok {
							if ld, ok := i.Val.(*ssa.UnOp); ok {
								if al, ok := ld.X.(*ssa.Alloc); ok && localConst[al] != nil && w.globInit[g] == nil {
									st := structOf(al.Type().Underlying().(*types.Pointer).Elem())
									if st != nil {
										w.globInit[g] = map[int]constInit{}
										for k := 0; k < st.NumFields(); k++ {
											if ci, ok := localConst[al][k]; ok {
												w.globInit[g][k] = ci
											} else if bt, ok := st.Field(k).Type().Underlying().(*types.Basic); ok && bt.Info()&(types.IsString|types.IsInteger|types.IsBoolean) != 0 {
												w.globInit[g][k] = constInit{nil, st.Field(k).Type()}
											}
										}
										continue
									}
								}
							}
						}
					}
					g, fi, ok := rootGlobal(i.Addr)
					if !ok {
						continue
					}
					if isInit {
						if call, isCall := i.Val.(*ssa.Call); isCall && fi == -1 {
							if f, ok := call.Call.Value.(*ssa.Function); ok && (f.RelString(nil) == "errors.New" || f.RelString(nil) == "fmt.Errorf") {
								if _, dup := w.globNonNil[g]; !dup && !w.globMutated[g] {
									w.globNonNil[g] = true
									continue
								}
							}
						}
						if c, isC := i.Val.(*ssa.Const); isC && fi >= -1 {
							if w.globInit[g] == nil {
								w.globInit[g] = map[int]constInit{}
							}
							if _, dup := w.globInit[g][fi]; dup {
								w.globMutated[g] = true
							}
							w.globInit[g][fi] = constInit{c.Value, c.Type()}
							continue
						}
					}
					w.globMutated[g] = true
				case ssa.CallInstruction:
					for _, a := range i.Common().Args {
						if g, _, ok := rootGlobal(a); ok {
							w.globMutated[g] = true
						}
					}
				case *ssa.MakeInterface:
					if g, _, ok := rootGlobal(i.X); ok {
						w.globMutated[g] = true
					}
				}
			}
		}
	}
	// init functions of packages are split init#1.. ; also handle synthetic package init
	for _, sp := range w.spkgs {
		if sp == nil {
			continue
		}
		if f := sp.Func("init"); f != nil {
			for _, b := range f.Blocks {
				for _, in := range b.Instrs {
					if st, ok := in.(*ssa.Store); ok {
						if g, fi, ok := rootGlobal(st.Addr); ok {
							if c, isC := st.Val.(*ssa.Const); isC && fi >= -1 {
								if w.globInit[g] == nil {
									w.globInit[g] = map[int]constInit{}
								}
								w.globInit[g][fi] = constInit{c.Value, c.Type()}
							}
						}
					}
				}
			}
		}
	}
}

func globSym(g *ssa.Global) string {
	return "glob$" + g.Pkg.Pkg.Name() + "." + g.Name()
}

// globalAddr returns the (constant, non-nil, allocated-at-entry) address of a global.
func (w *World) globalAddr(e *Enc, g *ssa.Global) *T {
	sym := globSym(g)
	if !e.declSeen[sym] {
		e.declConst(sym, sRef)
		e.decls = append(e.decls, fmt.Sprintf("(assert (and (> %s 0) (< %s H0$next)))", sym, sym))
		e.entryHeap(allocHeap, sInt)
		// distinct from other globals declared so far
		for _, other := range sortedKeys(e.declSeen) {
			if strings.HasPrefix(other, "glob$") && other != sym {
				e.decls = append(e.decls, fmt.Sprintf("(assert (not (= %s %s)))", sym, other))
			}
		}
		if !w.globMutated[g] && w.globNonNil[g] {
			h := e.entryHeap(cellHeap(sIface), arrSort(sRef, sIface))
			e.decls = append(e.decls, fmt.Sprintf("(assert (not (= (select %s %s) nilIface)))", h.S, sym))
			e.uses[fmt.Sprintf("package variable %s.%s is an error sentinel created by errors.New in init and never reassigned: non-nil", g.Pkg.Pkg.Name(), g.Name())] = true
		}
		// immutable initial constants
		if !w.globMutated[g] {
			elem := g.Type().(*types.Pointer).Elem()
			idxs := make([]int, 0)
			for fi := range w.globInit[g] {
				idxs = append(idxs, fi)
			}
			sort.Ints(idxs)
			for _, fi := range idxs {
				ci := w.globInit[g][fi]
				val := e.constTerm(ci.val, ci.typ)
				if fi == -1 {
					es := e.sortOf(elem)
					h := e.entryHeap(cellHeap(es), arrSort(sRef, es))
					e.decls = append(e.decls, fmt.Sprintf("(assert (= (select %s %s) %s))", h.S, sym, val.S))
				} else if st := structOf(elem); st != nil {
					fs := e.sortOf(st.Field(fi).Type())
					h := e.entryHeap(fieldHeap(ownerName(elem), st.Field(fi).Name()), arrSort(sRef, fs))
					e.decls = append(e.decls, fmt.Sprintf("(assert (= (select %s %s) %s))", h.S, sym, val.S))
				}
				e.uses[fmt.Sprintf("package variable %s.%s is never reassigned after init (checked syntactically over the repo); its initial constant is assumed", g.Pkg.Pkg.Name(), g.Name())] = true
			}
		}
	}
	r := mk(sym, sRef)
	r.GoT = g.Type()
	return r
}

// globalValue loads the current value of a package-level variable.
func (w *World) globalValue(e *Enc, st *State, v *types.Var) *T {
	for _, sp := range w.spkgs {
		if sp != nil && sp.Pkg == v.Pkg() {
			if g, ok := sp.Members[v.Name()].(*ssa.Global); ok {
				addr := w.globalAddr(e, g)
				// Unmutated globals keep their entry value: read from the entry heap.
				if !w.globMutated[g] {
					return loadPtr(e, e.newState(), addr, v.Type())
				}
				return loadPtr(e, st, addr, v.Type())
			}
		}
	}
	// A variable of a dependency (loaded from export data): its address is a constant, its
	// value is whatever the heap holds; error sentinels are known to be non-nil.
	if sp := w.prog.Package(v.Pkg()); sp != nil {
		if g, ok := sp.Members[v.Name()].(*ssa.Global); ok {
			return loadPtr(e, e.newState(), w.globalAddr(e, g), v.Type())
		}
	}
	fail("global %s.%s not found", v.Pkg().Name(), v.Name())
	return nil
}
