package main

// Replay of failed obligations. The generic part records the obligation, the
// clause, the solver outputs and the model values of the function's inputs.
// Per-function concretisers (replay_concrete.go) turn a model into real inputs
// and run the real code through `go test -overlay`.

import (
	"strings"
)

type Replay struct {
	Property    string            `json:"property"`
	Obligation  string            `json:"obligation"`
	Kind        string            `json:"kind"`
	Function    string            `json:"function"`
	Clause      string            `json:"clause"`
	At          string            `json:"at"`
	Result      string            `json:"solver_result"`
	Solvers     map[string]string `json:"solvers"`
	Model       map[string]string `json:"model,omitempty"`
	SolverOut   string            `json:"solver_output"`
	Reproduced  bool              `json:"reproduced_on_real_code"`
	ReplayNote  string            `json:"replay_note"`
	ReplayInput any               `json:"replay_input,omitempty"`
	ReplayOut   string            `json:"replay_output,omitempty"`
	SMTFile     string            `json:"smt_file"`
}

func buildReplay(o checkOpts, w *World, ob *Obligation) *Replay {
	rp := &Replay{
		Property: o.prop, Obligation: ob.Name, Kind: ob.Kind, Function: ob.Func, Clause: ob.Clause, At: ob.Pos,
		Result: ob.Res.Status, Solvers: ob.Res.All, SolverOut: truncate(ob.Res.Output, 4000),
		SMTFile: o.verif + "/evidence/replay/" + sanitize(o.prop+"-"+ob.Name) + ".smt2",
	}
	if ob.Res.Status == "sat" {
		rp.Model = parseGetValues(ob.Res.Output)
	}
	if c := concretisers[ob.Func]; c != nil && ob.Res.Status == "sat" {
		c(o, w, ob, rp)
	} else if ob.Res.Status == "sat" && ob.vc != nil {
		genericScalarReplay(o, w, ob, rp, ob.vc.fn, ob.vc)
	}
	if !rp.Reproduced && rp.ReplayNote == "" {
		if ob.Res.Status == "sat" {
			rp.ReplayNote = "the solver returned a model over abstract values (heaps, uninterpreted strings); no concretiser is registered for this function — no-failing-input-found"
		} else {
			rp.ReplayNote = "the solver returned no model (" + ob.Res.Status + "); the obligation is discharged on the registered tree and is not discharged on this tree — no-failing-input-found"
		}
	}
	return rp
}

// parseGetValues reads `((name value))` lines produced by (get-value ...).
func parseGetValues(out string) map[string]string {
	m := map[string]string{}
	for _, l := range strings.Split(out, "\n") {
		l = strings.TrimSpace(l)
		if !strings.HasPrefix(l, "((") || !strings.HasSuffix(l, "))") {
			continue
		}
		inner := l[2 : len(l)-2]
		i := -1
		if strings.HasPrefix(inner, "(") {
			depth := 0
			for j := 0; j < len(inner); j++ {
				if inner[j] == '(' {
					depth++
				} else if inner[j] == ')' {
					depth--
					if depth == 0 {
						i = j + 1
						break
					}
				}
			}
		} else {
			i = strings.IndexAny(inner, " \t")
		}
		if i < 0 || i >= len(inner) {
			continue
		}
		m[inner[:i]] = strings.TrimSpace(inner[i+1:])
	}
	return m
}

type concretiser func(o checkOpts, w *World, ob *Obligation, rp *Replay)

var concretisers = map[string]concretiser{}
