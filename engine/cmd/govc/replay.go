package main

// Replay of failed obligations. The generic part records the obligation, the
// clause, the solver outputs and the model values of the function's inputs.
// Per-function concretisers (replay_concrete.go) turn a model into real inputs
// and run the real code through `go test -overlay`.

import (
	"strings"
)

type Replay struct {
	Property    string            `json:"property"`
	Obligation  string            `json:"obligation"`
	Kind        string            `json:"kind"`
	Function    string            `json:"function"`
	Clause      string            `json:"clause"`
	At          string            `json:"at"`
	Result      string            `json:"solver_result"`
	Solvers     map[string]string `json:"solvers"`
	Model       map[string]string `json:"model,omitempty"`
	ModelFrom   string            `json:"model_from,omitempty"`
	SolverOut   string            `json:"solver_output"`
	Reproduced  bool              `json:"reproduced_on_real_code"`
	ReplayNote  string            `json:"replay_note"`
	ReplayInput any               `json:"replay_input,omitempty"`
	ReplayOut   string            `json:"replay_output,omitempty"`
	SMTFile     string            `json:"smt_file"`
}

func buildReplay(o checkOpts, w *World, ob *Obligation) *Replay {
	rp := &Replay{
		Property: o.prop, Obligation: ob.Name, Kind: ob.Kind, Function: ob.Func, Clause: ob.Clause, At: ob.Pos,
		Result: ob.Res.Status, Solvers: ob.Res.All, SolverOut: truncate(ob.Res.Output, 4000),
		SMTFile: o.verif + "/evidence/replay/" + sanitize(o.prop+"-"+ob.Name) + ".smt2",
	}
	if ob.Res.Status == "sat" {
		rp.Model = parseGetValues(ob.Res.Output)
	}
	if ob.Res.Status != "sat" && ob.vc != nil && ob.Kind == "post" && scalarConcretisable(ob.vc.fn) {
		// No model (quantified condition: the solvers time out instead of answering sat). Look for a
		// candidate input in the quantifier-free part of the condition - dropping assumptions only adds
		// models, and a candidate counts for nothing unless the REAL function misbehaves on it.
		if m := quantifierFreeModel(ob); m != nil {
			rp.Model = m
			rp.ModelFrom = "quantifier-free part of the condition (candidate input, judged only by running the real code)"
		}
	}
	if c := concretisers[ob.Func]; c != nil && ob.Res.Status == "sat" {
		c(o, w, ob, rp)
	} else if rp.Model != nil && ob.vc != nil {
		genericScalarReplay(o, w, ob, rp, ob.vc.fn, ob.vc)
	}
	if !rp.Reproduced && rp.ReplayNote == "" {
		if ob.Res.Status == "sat" {
			rp.ReplayNote = "the solver returned a model over abstract values (heaps, uninterpreted strings); no concretiser is registered for this function — no-failing-input-found"
		} else {
			rp.ReplayNote = "the solver returned no model (" + ob.Res.Status + "); the obligation is discharged on the registered tree and is not discharged on this tree — no-failing-input-found"
		}
	}
	return rp
}

// quantifierFreeModel re-asks the obligation's query with every quantified assertion left out.
func quantifierFreeModel(ob *Obligation) map[string]string {
	if ob.enc == nil {
		return nil
	}
	q := ob.enc.queryP(ob.seq, []string{"(assert " + ob.reach.S + ")", "(assert (not " + ob.goal.S + "))"}, ob.values, false, ob.keep, ob.Props)
	var b strings.Builder
	lines := strings.Split(q, "\n")
	for i, l := range lines {
		last := i >= len(lines)-3-len(ob.values) // the reach/goal assertions and what follows stay
		if !last && strings.HasPrefix(l, "(assert") && (strings.Contains(l, "(forall ") || strings.Contains(l, "(exists ")) {
			continue
		}
		b.WriteString(l)
		b.WriteByte('\n')
	}
	sr := solve("qf-"+ob.Name, b.String(), 10, 1)
	if sr.Status != "sat" {
		return nil
	}
	return parseGetValues(sr.Output)
}

// parseGetValues reads `((name value))` lines produced by (get-value ...).
func parseGetValues(out string) map[string]string {
	m := map[string]string{}
	for _, l := range strings.Split(out, "\n") {
		l = strings.TrimSpace(l)
		if !strings.HasPrefix(l, "((") || !strings.HasSuffix(l, "))") {
			continue
		}
		inner := l[2 : len(l)-2]
		i := -1
		if strings.HasPrefix(inner, "(") {
			depth := 0
			for j := 0; j < len(inner); j++ {
				if inner[j] == '(' {
					depth++
				} else if inner[j] == ')' {
					depth--
					if depth == 0 {
						i = j + 1
						break
					}
				}
			}
		} else {
			i = strings.IndexAny(inner, " \t")
		}
		if i < 0 || i >= len(inner) {
			continue
		}
		m[inner[:i]] = strings.TrimSpace(inner[i+1:])
	}
	return m
}

type concretiser func(o checkOpts, w *World, ob *Obligation, rp *Replay)

var concretisers = map[string]concretiser{}
