package main

// Generic concretiser for functions whose parameters and results are scalars
// or strings: the model's inputs are turned into Go literals, the REAL function
// is called through an in-package test injected with `go test -overlay`, and
// the violated clause is evaluated on the observed outputs by the solver
// (inputs and outputs pinned to the concrete values). A clause that is false on
// the real run is a reproduced violation.

import (
	"bytes"
	"encoding/json"
	"fmt"
	"go/types"
	"math/big"
	"os"
	"os/exec"
	"path/filepath"
	"strconv"
	"strings"
	"time"

	"golang.org/x/tools/go/ssa"
)

func smtValToBig(s string) (*big.Int, bool) {
	s = strings.TrimSpace(s)
	switch {
	case strings.HasPrefix(s, "#x"):
		n, ok := new(big.Int).SetString(s[2:], 16)
		return n, ok
	case strings.HasPrefix(s, "#b"):
		n, ok := new(big.Int).SetString(s[2:], 2)
		return n, ok
	case strings.HasPrefix(s, "(_ bv"):
		f := strings.Fields(strings.Trim(s, "()"))
		n, ok := new(big.Int).SetString(strings.TrimPrefix(f[1], "bv"), 10)
		return n, ok
	case strings.HasPrefix(s, "(- "):
		n, ok := new(big.Int).SetString(strings.TrimSuffix(strings.TrimPrefix(s, "(- "), ")"), 10)
		if ok {
			n.Neg(n)
		}
		return n, ok
	}
	n, ok := new(big.Int).SetString(s, 10)
	return n, ok
}

func signedOf(n *big.Int, w int) *big.Int {
	half := new(big.Int).Lsh(big.NewInt(1), uint(w-1))
	if n.Cmp(half) >= 0 {
		return new(big.Int).Sub(n, new(big.Int).Lsh(big.NewInt(1), uint(w)))
	}
	return n
}

// concreteString rebuilds a Go string from slen/sat model values (and the
// isDigits/decval hints for numeric strings).
func concreteString(model map[string]string, term string) (string, bool) {
	if v, ok := model[sapp("spec$isDigits", term)]; ok && v == "true" {
		if o, ok := model[sapp("spec$decOverflow", term)]; ok && o == "true" {
			return "99999999999999999999", true
		}
		if d, ok := model[sapp("spec$dec64", term)]; ok {
			if n, ok := smtValToBig(d); ok {
				return signedOf(n, 64).String(), true
			}
		}
		return "0", true
	}
	// sign followed by digits
	tail := sapp("ssub", term, bvLit(1, 64), sapp("slen", term))
	if v, ok := model[sapp("spec$isDigits", tail)]; ok && v == "true" {
		if c0, ok := model[sapp("sat", term, bvLit(0, 64))]; ok {
			if c, ok := smtValToBig(c0); ok && (c.Int64() == '+' || c.Int64() == '-') {
				digits := "0"
				if o, ok := model[sapp("spec$decOverflow", tail)]; ok && o == "true" {
					digits = "99999999999999999999"
				} else if d, ok := model[sapp("spec$dec64", tail)]; ok {
					if n, ok := smtValToBig(d); ok {
						digits = signedOf(n, 64).String()
					}
				}
				return string(rune(c.Int64())) + digits, true
			}
		}
	}
	lv, ok := model[sapp("slen", term)]
	if !ok {
		return "", false
	}
	ln, ok := smtValToBig(lv)
	if !ok || !ln.IsInt64() || ln.Int64() > 24 {
		return "", false
	}
	var b []byte
	for i := int64(0); i < ln.Int64(); i++ {
		cv, ok := model[sapp("sat", term, bvLit(i, 64))]
		if !ok {
			return "", false
		}
		c, ok := smtValToBig(cv)
		if !ok {
			return "", false
		}
		b = append(b, byte(c.Int64()))
	}
	return string(b), true
}

func scalarConcretisable(fn *ssa.Function) bool {
	ok := func(t types.Type) bool {
		switch u := t.Underlying().(type) {
		case *types.Basic:
			return u.Info()&(types.IsInteger|types.IsBoolean|types.IsString) != 0
		}
		return false
	}
	if len(fn.FreeVars) > 0 {
		return false
	}
	for _, p := range fn.Params {
		if !ok(p.Type()) {
			return false
		}
	}
	rs := fn.Signature.Results()
	if rs.Len() == 0 {
		return false
	}
	for i := 0; i < rs.Len(); i++ {
		if !ok(rs.At(i).Type()) {
			return false
		}
	}
	return true
}

func goLiteral(t types.Type, model map[string]string, term string, e *Enc) (string, string, bool) {
	so := e.sortOf(t)
	ts := types.TypeString(t, func(p *types.Package) string { return "" })
	switch so.Kind {
	case KBool:
		v, ok := model[term]
		return ts + "(" + v + ")", term + "=" + v, ok
	case KBV:
		v, ok := model[term]
		if !ok {
			return "", "", false
		}
		n, ok := smtValToBig(v)
		if !ok {
			return "", "", false
		}
		if so.Signed {
			n = signedOf(n, so.W)
		}
		return ts + "(" + n.String() + ")", term + "=" + n.String(), true
	case KStr:
		s, ok := concreteString(model, term)
		return ts + "(" + strconv.Quote(s) + ")", term + "=" + strconv.Quote(s), ok
	}
	return "", "", false
}

// runRealScalar calls the real function on the model's inputs and returns the printed results.
func runRealScalar(o checkOpts, w *World, fn *ssa.Function, argLits []string) ([]string, string, error) {
	dir, err := os.MkdirTemp("", "govc-replay-")
	if err != nil {
		return nil, "", err
	}
	defer os.RemoveAll(dir)
	pkgDir := filepath.Dir(w.prog.Fset.Position(fn.Pos()).Filename)
	call := fn.Name() + "(" + strings.Join(argLits, ", ") + ")"
	if recv := fn.Signature.Recv(); recv != nil {
		call = argLits[0] + "." + fn.Name() + "(" + strings.Join(argLits[1:], ", ") + ")"
	}
	n := fn.Signature.Results().Len()
	var lhs, prints []string
	for i := 0; i < n; i++ {
		lhs = append(lhs, fmt.Sprintf("r%d", i))
		prints = append(prints, fmt.Sprintf("\tfmt.Printf(\"GOVC-RESULT %d %%#v\\n\", r%d)", i, i))
	}
	src := fmt.Sprintf("package %s\n\nimport (\n\t\"fmt\"\n\t\"testing\"\n)\n\nfunc TestGovcReplay(t *testing.T) {\n\t%s := %s\n%s\n}\n",
		fn.Pkg.Pkg.Name(), strings.Join(lhs, ", "), call, strings.Join(prints, "\n"))
	tf := filepath.Join(dir, "zz_govc_replay_test.go")
	os.WriteFile(tf, []byte(src), 0o644)
	ov, _ := json.Marshal(map[string]any{"Replace": map[string]string{filepath.Join(pkgDir, "zz_govc_replay_test.go"): tf}})
	ovf := filepath.Join(dir, "ov.json")
	os.WriteFile(ovf, ov, 0o644)
	cmd := exec.Command("/usr/bin/go", "test", "-overlay", ovf, "-vet=off", "-count=1", "-v", "-timeout", "60s", "-run", "^TestGovcReplay$", ".")
	cmd.Dir = pkgDir
	var env []string
	for _, kv := range os.Environ() {
		if strings.HasPrefix(kv, "GOTOOLCHAIN=") || strings.HasPrefix(kv, "GOSUMDB=") || strings.HasPrefix(kv, "GOFLAGS=") || strings.HasPrefix(kv, "PATH=") {
			continue
		}
		env = append(env, kv)
	}
	env = append(env, "GOFLAGS=-mod=mod", "GOPROXY=off", "PATH=/usr/bin:/bin:/usr/local/bin:/usr/local/go/bin")
	cmd.Env = env
	var out bytes.Buffer
	cmd.Stdout, cmd.Stderr = &out, &out
	done := make(chan error, 1)
	go func() { done <- cmd.Run() }()
	select {
	case err = <-done:
	case <-time.After(120 * time.Second):
		cmd.Process.Kill()
		err = fmt.Errorf("replay timed out")
	}
	res := make([]string, n)
	for _, l := range strings.Split(out.String(), "\n") {
		if strings.HasPrefix(l, "GOVC-RESULT ") {
			f := strings.SplitN(l, " ", 3)
			i, _ := strconv.Atoi(f[1])
			if i < n && len(f) == 3 {
				res[i] = f[2]
			}
		}
	}
	return res, src + "\n--- output ---\n" + truncate(out.String(), 2000), err
}

// genericScalarReplay is tried for every failed `post` obligation with a model.
func genericScalarReplay(o checkOpts, w *World, ob *Obligation, rp *Replay, fn *ssa.Function, vc *fnVC) {
	if ob.Kind != "post" || !scalarConcretisable(fn) {
		return
	}
	var lits, pins []string
	inputs := map[string]string{}
	for _, p := range fn.Params {
		t := vc.params[p.Name()]
		lit, desc, ok := goLiteral(p.Type(), rp.Model, t.S, vc.e)
		if !ok {
			rp.ReplayNote = "model does not determine input " + p.Name() + " concretely"
			return
		}
		lits = append(lits, lit)
		inputs[p.Name()] = desc
		pins = append(pins, pinTerm(vc.e, t, lit, p.Type()))
	}
	rp.ReplayInput = inputs
	res, transcript, err := runRealScalar(o, w, fn, lits)
	rp.ReplayOut = transcript
	if err != nil && strings.Contains(transcript, "panic:") {
		rp.Reproduced = true
		rp.ReplayNote = "the real function panics on the model's input"
		return
	}
	if err != nil {
		rp.ReplayNote = "replay run failed: " + err.Error()
		return
	}
	for _, r := range res {
		if r == "" {
			rp.ReplayNote = "replay run produced no result line"
			return
		}
	}
	// pin the observed results and ask the solver whether the clause is false on them
	ret := findReturn(fn, ob)
	_ = ret
	var extra []string
	extra = append(extra, pins...)
	// results: the obligation's goal mentions result terms; pin them through the values recorded on the obligation
	for i, rterm := range ob.resultTerms {
		if i < len(res) && res[i] != "" {
			extra = append(extra, pinTerm(vc.e, rterm, res[i], fn.Signature.Results().At(i).Type()))
		}
	}
	// uninterpreted spec functions in the clause must be pinned to their concrete meaning
	strs := map[string]string{}
	for _, p := range fn.Params {
		t := vc.params[p.Name()]
		if t.Sort.Kind == KStr {
			if sv, ok := concreteString(rp.Model, t.S); ok {
				strs[t.S] = sv
			}
		}
	}
	specPins, okPins := pinSpecApps(ob.goal.S, strs)
	if !okPins {
		rp.ReplayNote = fmt.Sprintf("real code called with the model's input returns %v; the clause mentions uninterpreted specification functions that cannot be evaluated on concrete values here, so the run is not judged", res)
		return
	}
	extra = append(extra, specPins...)
	extra = append(extra, "(assert (not "+ob.goal.S+"))")
	// only the declarations, literals and axioms are needed: inputs and outputs are concrete
	q := ob.enc.queryX(0, extra, nil, true)
	sr := solve("replay-"+ob.Name, q, 20, 1)
	switch sr.Status {
	case "sat":
		rp.Reproduced = true
		rp.ReplayNote = fmt.Sprintf("real code called with the model's input returns %v, which violates the clause (clause evaluated on the concrete input/output by %s)", res, sr.Solver)
	case "unsat":
		rp.ReplayNote = fmt.Sprintf("real code called with the model's input returns %v, which satisfies the clause: the model is spurious for the real code (abstraction too weak)", res)
	default:
		rp.ReplayNote = "clause evaluation on the concrete run was inconclusive (" + sr.Status + ")"
	}
}

func findReturn(fn *ssa.Function, ob *Obligation) *ssa.Return { return nil }

// pinTerm asserts that an SMT term equals a concrete Go value printed with %#v / written as a literal.
func pinTerm(e *Enc, t *T, lit string, typ types.Type) string {
	// strip a conversion wrapper  T(…)
	if i := strings.Index(lit, "("); i >= 0 && strings.HasSuffix(lit, ")") && !strings.HasPrefix(lit, "\"") {
		lit = lit[i+1 : len(lit)-1]
	}
	switch t.Sort.Kind {
	case KBool:
		return "(assert (= " + t.S + " " + lit + "))"
	case KBV:
		n, ok := new(big.Int).SetString(lit, 0)
		if !ok {
			return ""
		}
		if n.Sign() < 0 {
			n.Add(n, new(big.Int).Lsh(big.NewInt(1), uint(t.Sort.W)))
		}
		return fmt.Sprintf("(assert (= %s (_ bv%s %d)))", t.S, n.String(), t.Sort.W)
	case KStr:
		s, err := strconv.Unquote(lit)
		if err != nil {
			return ""
		}
		var b strings.Builder
		fmt.Fprintf(&b, "(assert (= (slen %s) %s))", t.S, bvLit(int64(len(s)), 64))
		for i := 0; i < len(s); i++ {
			fmt.Fprintf(&b, "(assert (= (sat %s %s) %s))", t.S, bvLit(int64(i), 64), bvLit(int64(s[i]), 8))
		}
		// if the literal is known to the encoding, identify it
		if sym, ok := e.lits[s]; ok {
			fmt.Fprintf(&b, "(assert (= %s %s))", t.S, sym)
		}
		return b.String()
	}
	return ""
}

// concrete meaning of the uninterpreted string functions of the specification
func specIsDigits(s string) bool {
	if s == "" {
		return false
	}
	for i := 0; i < len(s); i++ {
		if s[i] < '0' || s[i] > '9' {
			return false
		}
	}
	return true
}

func specDec64(s string) (int64, bool) {
	n, ok := new(big.Int).SetString(s, 10)
	if !ok || !specIsDigits(s) {
		return 0, false
	}
	if n.IsInt64() {
		return n.Int64(), false
	}
	return 1<<63 - 1, true
}

// pinSpecApps finds every application spec$f(ARG) in the clause text and pins
// it when ARG is a known concrete string (a parameter, or its tail s[1:]).
func pinSpecApps(goal string, strs map[string]string) ([]string, bool) {
	var pins []string
	seen := map[string]bool{}
	for i := 0; i < len(goal); i++ {
		if !strings.HasPrefix(goal[i:], "(spec$") {
			continue
		}
		// extract the balanced application
		depth, j := 0, i
		for ; j < len(goal); j++ {
			if goal[j] == '(' {
				depth++
			} else if goal[j] == ')' {
				depth--
				if depth == 0 {
					break
				}
			}
		}
		appl := goal[i : j+1]
		if seen[appl] {
			continue
		}
		seen[appl] = true
		sp := strings.IndexByte(appl, ' ')
		name, arg := appl[1:sp], strings.TrimSpace(appl[sp+1:len(appl)-1])
		var val string
		var known bool
		if sv, ok := strs[arg]; ok {
			val, known = sv, true
		} else {
			for pterm, sv := range strs {
				if arg == sapp("ssub", pterm, bvLit(1, 64), sapp("slen", pterm)) && len(sv) >= 1 {
					val, known = sv[1:], true
				}
			}
		}
		if !known {
			return nil, false
		}
		switch name {
		case "spec$isDigits":
			pins = append(pins, fmt.Sprintf("(assert (= %s %v))", appl, specIsDigits(val)))
		case "spec$dec64":
			n, _ := specDec64(val)
			pins = append(pins, fmt.Sprintf("(assert (= %s %s))", appl, bvLit(n, 64)))
		case "spec$decOverflow":
			_, o := specDec64(val)
			pins = append(pins, fmt.Sprintf("(assert (= %s %v))", appl, o))
		case "spec$deltaNanos":
			n, _ := specDec64(val)
			d := int64(1<<63 - 1)
			if n <= d/1000000000 {
				d = n * 1000000000
			}
			pins = append(pins, fmt.Sprintf("(assert (= %s %s))", appl, bvLit(d, 64)))
		default:
			return nil, false
		}
	}
	return pins, true
}
