#!/bin/bash
# Runs the repo's test suite (guard off) and compares the set of passing tests with BASELINE.json's stable_pass.
cd /repo && env GOFLAGS=-mod=mod GOPROXY=off go test -json -vet=off -count=1 -timeout 25m ./... 2>/dev/null > /tmp/govc_baseline.json
python3 - <<'PY'
import json
b=set(json.load(open('/root/.vp/BASELINE.json'))['stable_pass'])
passed=set()
for l in open('/tmp/govc_baseline.json'):
    try: e=json.loads(l)
    except: continue
    if e.get('Action')=='pass' and e.get('Test'):
        passed.add(e['Package']+'::'+e['Test'])
missing=sorted(b-passed)
print("baseline tests passing: %d / %d"%(len(b&passed),len(b)))
for m in missing: print("  NOT PASSING:",m)
PY
rm -f /tmp/govc_baseline.json
