#!/usr/bin/env python3
"""tools/mk_seed_meta.py : (re)writes /verif/seeded/<tag>/meta.json from the table below, notes.txt, confirm.txt and last_run.txt."""
import json, os, re
S = '/verif/seeded'
# tag: (what the change is, what it needs to manifest, strengthened-note or None, status)
T = {
 'C01-a': ("ExpiresHeader: an unparseable Expires is reported as absent (found=false), so heuristic freshness applies", "Expires present but not an HTTP-date, no max-age, Last-Modified earlier than Date, heuristically cacheable status; request after Date+0 but before 10% of Date-Last-Modified", None, 'active'),
 'C01-b': ("RawDeltaSeconds.Value: overflow guard before the multiplication dropped", "an Age (or max-age) value between 9223372037 and 2^63-1 seconds whose nanosecond count wraps to a small positive number, e.g. 18014398509481984", None, 'active'),
 'C02-a': ("HandleValidationResponse: stale-if-error applied without the must-revalidate / no-cache guard", "stored response with stale-if-error=N and (must-revalidate while stale, or unqualified no-cache), origin answers the validation with 5xx, staleness inside N", "missed at first: the guard was not part of the contract; postcondition stored-only-after-304-or-stale-if-error strengthened from the property text. patch.diff re-ported to the current tree (context lines moved)", 'active'),
 'C02-b': ("handleCacheHit: request max-age test >= changed to >", "request max-age=0 (relied on CalculateFreshness answering age 0) plus stale-while-revalidate or only-if-cached", "obsolete on the current tree: fix 6c531b9 makes handleCacheHit use the real age for max-age=0 requests, after which this change only moves the boundary age == max-age, which the property leaves free; its demonstration passes with the change applied. Detected before that fix by handleCacheHit/post[request-max-age-validated].", 'obsolete'),
 'C03-a': ("normalizePercentEncoding: second hex digit of an escape not checked", "a query containing '%', one hex digit, one non-hex byte (e.g. ?id=%7z), and a second URI whose normalised query equals the mis-normalised result", None, 'active'),
 'C06-a': ("responseCache.Set: error of httputil.DumpResponse shadowed", "the origin's body fails while being drained (connection breaks after N bytes, length mismatch) for an otherwise storable response", "missed at first; ghost bodyReadFailed and the clause unreadable-body-not-written added", 'active'),
 'C06-b': ("TrimmedCSVSeq: backslash-escape handling removed", "a quoted directive argument with an odd number of \\\" followed by no-store / must-understand", "missed at first (tokenizer was trusted); its loop now carries the quoting state machine as invariants", 'active'),
 'C07-a': ("sameOrigin compares host:port text instead of effective ports", "Location/Content-Location with the scheme's default port spelled on exactly one side", "patch.diff re-ported after fix 36b5d7c changed sameOrigin (the seeded comparison now uses asciiLower like the repaired code) and re-confirmed", 'active'),
 'C08-a': ("backgroundRevalidate re-reads the variant index before finishValidation but keeps the old position", "stale-while-revalidate validation, >= 2 variants, storage order different from the matcher's sort order", None, 'active'),
 'C10-a': ("GetRefs returns the decoded slice together with the error for nil elements", "stored index JSON with a null element, unsafe method, 2xx/3xx reply", None, 'active'),
 'C10-b': ("normalizePercentEncoding: i not advanced when '%' is followed by non-hex bytes (infinite loop)", "a query with '%' followed by two bytes that are not both hex", "missed at first (termination was not verified); loop N decreases clauses added to the engine and to every explicit loop", 'active'),
 'C11-a': ("calculateCurrentAge: resident time measured from request time", "origin response delay of >= 2 s when the entry was stored", None, 'active'),
 'C11-b': ("serveFromCache: qualified no-cache stripping moved after Age/status generation", "no-cache=\"...\" naming Age or the status fields", None, 'active'),
 'C12-a': ("RawDeltaSeconds.Value: overflow checked by sign after multiplying", "delta-seconds between 9223372037 and 2^63-1 whose product wraps non-negative (multiples of 2^55 ...)", None, 'active'),
 'C13-a': ("CanStaleOnError: the first source that has stale-if-error decides", "stored stale-if-error=N1 exceeded while the request's stale-if-error=N2 > N1 would allow", None, 'active'),
 'C14-a': ("fragmentFileName: loop condition > fragmentSize became >= fragmentSize-1", "encoded length > 255 and a multiple of 47, plus a second key extending the first", None, 'active'),
 'C15-a': ("writeSyncClose: Write/Sync error overwritten by the nil result of Close", "a write failure in the middle of Set (full disk, RLIMIT_FSIZE)", None, 'active'),
 'C17-a': ("fsCache.get: Decrypt error overwritten by the result of Chtimes", "encryption on, update_mtime on, tampered file or wrong key", None, 'active'),
 'C18-a': ("handleCacheHit: stale-while-revalidate branch tested before only-if-cached", "only-if-cached request, stale entry inside its stale-while-revalidate window", "missed at first; precondition not-only-if-cached on handleStaleWhileRevalidate / backgroundRevalidate added", 'active'),
 'C18-b': ("handleUnrecognizedMethod: only-if-cached 504 only for safe methods", "unsafe method with only-if-cached", None, 'active'),
 'C19-a': ("StoreResponse: same-variant reference dropped only if strictly older", "Vary: * and a Date that does not advance between requests", None, 'active'),
}
extra = json.load(open(S + '/extra_meta.json')) if os.path.exists(S + '/extra_meta.json') else {}
for tag, v in extra.items():
    T[tag] = tuple(v)
for tag in sorted(os.listdir(S)):
    d = os.path.join(S, tag)
    if not os.path.isdir(d):
        continue
    what, needs, strengthened, status = T.get(tag, ("see notes.txt", "see notes.txt", None, 'active'))
    notes = open(d + '/notes.txt').read() if os.path.exists(d + '/notes.txt') else ''
    m = re.search(r'^pkgdir=(\S+)', notes, re.M)
    conf = open(d + '/confirm.txt').read().strip() if os.path.exists(d + '/confirm.txt') else ''
    last = open(d + '/last_run.txt').read().strip().split('\n') if os.path.exists(d + '/last_run.txt') else []
    meta = {
        'seed': tag, 'property': tag.split('-')[0], 'status': status,
        'change': what, 'needs_to_manifest': needs,
        'demo': {'file': 'demo_test.go', 'package_dir': m.group(1) if m else '.'},
        'confirmed_by_me': {'how': 'tools/confirm_seed.sh: scratch git worktree of /repo HEAD under /tmp, git apply patch.diff, go build, full test suite compared with /root/.vp/BASELINE.json, demo run with the change and again after git apply -R; worktree removed', 'result': conf},
        'checked_with': {'how': 'tools/seed_matrix.sh (git -C /repo apply patch.diff; ./check <property> quick; git -C /repo apply -R patch.diff)', 'last_run': last},
        'detected': bool(last) and any(l.startswith('VIOLATION') for l in last),
    }
    if strengthened:
        meta['history'] = strengthened
    json.dump(meta, open(d + '/meta.json', 'w'), indent=1)
# the table of section 0F of DESIGN.md
rows=[]
for tag in sorted(os.listdir(S)):
    d=os.path.join(S,tag)
    if not os.path.isdir(d): continue
    m=json.load(open(d+'/meta.json'))
    first=''
    for l in m['checked_with']['last_run']:
        if l.startswith('VIOLATION'):
            mm=re.search(r'obligation=(\S+)',l)
            ms=re.search(r'bounded-stand-in=(\S+)',l)
            first=mm.group(1) if mm else ('bounded stand-in '+ms.group(1) if ms else '')
            break
    if m['status']=='obsolete':
        caught='(obsolete on the current tree)'
    elif first:
        caught='`'+first+'`'
    else:
        caught='**not detected**' if m['checked_with']['last_run'] else '(not run)'
    rows.append('| %s | %s | %s | %s |'%(tag,m['change'],caught,m.get('history','') ))
table='| seed | change | caught by (first failing obligation of `./check <property> quick`) | history |\n|------|--------|------|------|\n'+'\n'.join(rows)+'\n'
dp='/verif/DESIGN.md'
dd=open(dp).read()
pat=re.compile(r'<!-- seedtable -->.*?<!-- /seedtable -->\n',re.S)
if pat.search(dd):
    dd=pat.sub(lambda _:'<!-- seedtable -->\n'+table+'<!-- /seedtable -->\n',dd,count=1)
    open(dp,'w').write(dd)
print('meta.json written for', len([t for t in os.listdir(S) if os.path.isdir(os.path.join(S, t))]), 'seeds')
