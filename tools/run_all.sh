#!/bin/bash
# Runs every claimed check (quick tier unless $1 given) and prints one summary line each.
cd /verif
tier=${1:-quick}
ids=$(python3 -c "import json;print(' '.join(c['property_id'] for c in json.load(open('MANIFEST.json'))['checks']))")
./check --raw version >/dev/null 2>&1 # make sure the engine is built once
for p in $ids; do
  ( ./check $p $tier > /tmp/runall.$p.log 2>&1; echo "exit=$? $(grep -v '^WARN' /tmp/runall.$p.log | tail -1)"; grep '^VIOLATION\|^VACUOUS\|^UNDECIDED\|^KNOWN' /tmp/runall.$p.log | cut -c1-250 ) &
  # at most 4 checks at a time (each races 3 solvers per obligation)
  while [ $(jobs -r | wc -l) -ge 4 ]; do sleep 0.2; done
done
wait
rm -f /tmp/runall.*.log
