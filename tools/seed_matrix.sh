#!/bin/bash
# tools/seed_matrix.sh : applies every seeded change in turn to /repo, runs the quick check of its
# property, reverts, and records the outcome in seeded/<tag>/last_run.txt and seeded/MATRIX.txt.
cd /verif
[ -n "$(git -C /repo status --porcelain)" ] && { echo "/repo working tree not clean"; exit 3; }
# optional arguments: the seed tags to run (default: all); MATRIX.txt keeps the lines of seeds not re-run
tags="$*"
touch seeded/MATRIX.txt
for d in /verif/seeded/*/; do
  tag=$(basename $d); prop=${tag%-*}
  if [ -n "$tags" ] && ! echo " $tags " | grep -q " $tag "; then continue; fi
  grep -v "^$tag " seeded/MATRIX.txt > seeded/MATRIX.tmp; mv seeded/MATRIX.tmp seeded/MATRIX.txt
  if ! git -C /repo apply --check $d/patch.diff 2>/dev/null; then
    echo "$tag $prop patch-does-not-apply-on-current-tree" | tee -a seeded/MATRIX.txt; continue
  fi
  git -C /repo apply $d/patch.diff
  ./check $prop quick > /tmp/seedrun.$tag.out 2>&1; rc=$?
  git -C /repo apply -R $d/patch.diff
  viol=$(grep -c '^VIOLATION' /tmp/seedrun.$tag.out)
  first=$(grep '^VIOLATION' /tmp/seedrun.$tag.out | head -1 | sed -e 's/.*obligation=\([^ ]*\).*/\1/' -e 's/.*bounded-stand-in=\([^ ]*\).*/bounded-stand-in:\1/')
  { echo "exit=$rc violations=$viol"; grep -E '^(VIOLATION|UNDECIDED|property=)' /tmp/seedrun.$tag.out | cut -c1-700; } > $d/last_run.txt
  # keep the replay records of this run (the evidence directory is rewritten by the next check)
  rm -rf $d/replay; mkdir -p $d/replay
  grep '^VIOLATION' /tmp/seedrun.$tag.out | sed 's/.*replay=\([^ ]*\).*/\1/' | head -3 | while read f; do
    [ -f "$f" ] && python3 - "$f" $d/replay <<'PY'
import json, os, sys
d = json.load(open(sys.argv[1]))
for k in list(d):
    if isinstance(d[k], str) and len(d[k]) > 4000:
        d[k] = d[k][:4000] + ' ...[cut]'
json.dump(d, open(os.path.join(sys.argv[2], os.path.basename(sys.argv[1])), 'w'), indent=1)
PY
  done
  echo "$tag $prop exit=$rc violations=$viol first=$first" | tee -a seeded/MATRIX.txt
  rm -f /tmp/seedrun.$tag.out
done
sort -o seeded/MATRIX.txt seeded/MATRIX.txt
git -C /repo status --porcelain
