#!/bin/bash
# tools/confirm_seed.sh <id> <seedout-dir> <demo-package-dir-relative> <seed-name>
# Confirms a seeded change in a scratch worktree of /repo HEAD: suite still passes, demo fails with / passes without.
set -u
id="$1"; out="$2"; pkgdir="$3"; name="${4:-$1}"
wt=$(mktemp -d /tmp/confirm-XXXX); rmdir "$wt"
git -C /repo worktree add -q --detach "$wt" HEAD || exit 3
cd "$wt"
res="apply=fail"
if git apply "$out/patch.diff"; then
  res="apply=ok"
  env GOFLAGS=-mod=mod GOPROXY=off go build ./... && res="$res build=ok" || res="$res build=FAIL"
  env GOFLAGS=-mod=mod GOPROXY=off go test -json -vet=off -count=1 ./... 2>/dev/null > "$wt/.suite.json"
  suite=$(python3 - "$wt/.suite.json" <<'PY'
import json,sys
b=set(json.load(open('/root/.vp/BASELINE.json'))['stable_pass'])
passed=set()
for l in open(sys.argv[1]):
    try: e=json.loads(l)
    except: continue
    if e.get('Action')=='pass' and e.get('Test'): passed.add(e['Package']+'::'+e['Test'])
print("suite=%d/%d"%(len(b&passed),len(b)))
PY
)
  res="$res $suite"
  cp "$out/demo_test.go" "$wt/$pkgdir/zz_seed_demo_test.go"
  if env GOFLAGS=-mod=mod GOPROXY=off go test -vet=off -count=1 -run 'SeedDemo|Seed' "./$pkgdir" > "$wt/.demo_with.txt" 2>&1; then res="$res demo_with_change=PASS(!)"; else res="$res demo_with_change=FAIL"; fi
  git apply -R "$out/patch.diff"
  if env GOFLAGS=-mod=mod GOPROXY=off go test -vet=off -count=1 -run 'SeedDemo|Seed' "./$pkgdir" > "$wt/.demo_without.txt" 2>&1; then res="$res demo_without_change=PASS"; else res="$res demo_without_change=FAIL(!)"; fi
fi
echo "$name: $res"
mkdir -p /verif/seeded/$name
cp "$out/patch.diff" /verif/seeded/$name/patch.diff
cp "$out/demo_test.go" /verif/seeded/$name/demo_test.go
cp "$out/notes.txt" /verif/seeded/$name/notes.txt 2>/dev/null
echo "$res" > /verif/seeded/$name/confirm.txt
cd /; git -C /repo worktree remove --force "$wt"
