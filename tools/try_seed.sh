#!/bin/bash
# tools/try_seed.sh <patch> <prop>...   : apply a seeded change to /repo, run the checks, undo it.
patch="$1"; shift
git -C /repo apply "$patch" || { echo "patch does not apply"; exit 3; }
for p in "$@"; do
  /verif/check "$p" quick > /tmp/try_seed_$p.out 2>&1; rc=$?
  echo "== $p exit=$rc"; grep -E "^(VIOLATION|UNDECIDED|VACUOUS|KNOWN|property=)" /tmp/try_seed_$p.out | cut -c1-330
done
git -C /repo apply -R "$patch"
