#!/usr/bin/env python3
"""tools/mk_seed_prompt.py <prop-id> <tag> [extra hint]  -> creates worktree /tmp/seed/<tag> and prompt file /tmp/seed/prompt_<tag>.txt"""
import json,sys,subprocess,os
pid,tag=sys.argv[1],sys.argv[2]
extra=sys.argv[3] if len(sys.argv)>3 else ''
props={json.loads(l)['id']:json.loads(l) for l in open('/verif/properties.jsonl')}
p=props[pid]
wt='/tmp/seed/'+tag
os.makedirs('/tmp/seed',exist_ok=True)
subprocess.run(['git','-C','/repo','worktree','add','-q','--detach',wt,'HEAD'],check=True)
# the verification hook files are not part of what the agent should see
for root,_,files in os.walk(wt):
    for f in files:
        if f=='contracts_verif.go': os.remove(os.path.join(root,f))
subprocess.run('cd %s && git add -A && git -c user.email=x@x -c user.name=x commit -qm "scratch base" || true'%wt,shell=True)
tmpl=open('/verif/tools/seed_prompt.tmpl').read()
open('/tmp/seed/prompt_%s.txt'%tag,'w').write(tmpl.format(wt=wt,id=tag,title=p['title'],statement=p['statement'],quant=p['quantifier']['text'],extra=extra))
print('/tmp/seed/prompt_%s.txt'%tag)
