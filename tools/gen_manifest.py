#!/usr/bin/env python3
"""Writes /verif/MANIFEST.json from the table below (claimed checks) and lists every other property under not_applicable."""
import json, subprocess
props=[json.loads(l) for l in open('/verif/properties.jsonl')]
TECH="contract-based deductive verification: requires/ensures/invariants on the real functions (comment-only contract files in /repo behind the verif tag), weakest-precondition style VC generation over go/ssa of the current tree, every obligation discharged by z3/z3-new/cvc5"
TRUST="Trusted: the govc VC generator itself; assumed contracts on net/http, time, strconv, strings (listed per run in evidence.coverage.trusted_base); machine ints are 64-bit bit-vectors; goroutines have no interleaving semantics; termination not verified."
claimed={
 "C01":("proof","Postcondition stale-only-with-permission of handleCacheHit (served without an upstream call => age < lifetime, or max-stale / only-if-cached / the response's own stale-while-revalidate window), proved from the contracts of CalculateFreshness (lifetime precedence max-age > Expires > 10% heuristic, request max-age cap, min-fresh, max-stale), calculateCurrentAge (RFC 9111 4.2.3 age, saturating, bit-precise 64-bit) and RawDeltaSeconds.Value (delta-seconds, saturating). Every function is checked against its own contract for all inputs; callers only see callee contracts.","Sec. 6 C01",
       "The store invariant (entry times are the true exchange times) and the parsing of Cache-Control text into directives are assumed here (trusted ParseCC*Directives contract; see C12). float64*0.1 is an interval axiom. time.Time within +-2^70 ns of year 1. "+TRUST),
 "C02":("proof","Postconditions of handleCacheHit: a response served without an upstream call in the exchange carries no unqualified no-cache, is not (stale and must-revalidate), the request has no no-cache and no exceeded max-age (unless max-stale covers it); conditional request construction (withConditionalHeaders / cloneRequest: If-None-Match / If-Modified-Since copied, every other field kept, the client's request object not written: frame obligations).","Sec. 6 C02",
       "HandleValidationResponse is used through its interface contract; qualified no-cache field stripping inside the range-over-func loop of serveFromCache is framed but the 'every listed field is removed' clause is not yet proved. "+TRUST),
 "C18":("proof","The upstream RoundTripper's contract carries the precondition 'the request does not carry only-if-cached'; the modular rule generates that obligation at every call site (roundTripTimed, both calls in handleUnrecognizedMethod) and propagates it to handleCacheHit, handleCacheMiss and RoundTrip, whose postcondition is: only-if-cached => no upstream call in this exchange.","Sec. 6 C18",
       "Meaning of the Cache-Control text (which directives a header carries) is the uninterpreted dirsHas(ccText(h)); ParseCCRequestDirectives is trusted to compute it (C12). Background goroutines are not executed in the proof. "+TRUST),
 "C13":("proof","Contracts of CanStaleOnError (loop invariant over the directive sources: allowed only if some source's stale-if-error window contains the current staleness; strict; saturating) and of HandleValidationResponse (the stored response is returned only after a 304, or on a failed validation - transport error, 500/502/503/504 - when neither must-revalidate nor no-cache applies and the stored response's or the request's stale-if-error window holds; otherwise the origin's reply or error).","Sec. 6 C13",
       "The 'is returned inside the window' direction is proved for CanStaleOnError, not yet lifted to the handler; dispatch over the two directive map types is an assumed interface contract derived from the two verified methods. "+TRUST),
}
checks=[]
for p in props:
    i=p['id']
    if i in claimed:
        lvl,text,ref,note=claimed[i]
        checks.append({"property_id":i,"quick_cmd":"./check %s quick"%i,"thorough_cmd":"./check %s thorough"%i,"evidence_file":"/verif/evidence/%s.json"%i,
          "replay_cmd_template":"./check --replay {path}","engine":"govc","level_claimed":{"category":lvl,"text":text,"design_ref":ref},"level_note":note,"technique":TECH})
na=[{"property_id":p['id'],"reason":"contracts for this property are not yet discharged on the current tree (work in progress; see DESIGN.md section 6 for the planned contracts)"} for p in props if p['id'] not in claimed]
hooks=subprocess.run("git -C /repo log --format=%h --grep='^verif hook'",shell=True,capture_output=True,text=True).stdout.split()
m={"version":1,
"setup_cmd":"cd /verif/engine && PATH=/opt/veriftools/go1.26.8/bin:$PATH GOTOOLCHAIN=local GOFLAGS=-mod=vendor GOPROXY=off go build -o /verif/bin/govc ./cmd/govc",
"hooks":{"guard":"verif","enable":"-tags verif (read by the verifier only: the guarded files /repo/**/contracts_verif.go are comment-only)","baseline_off_cmd":"cd /repo && go test -mod=mod -vet=off -count=1 ./...","source_commits":hooks,"add_only":True},
"engines":[{"name":"govc","path":"/verif/engine","serves_properties":sorted(claimed),"kind_free_text":"contract-based deductive verifier written for this task: go/packages+go/ssa (x/tools v0.50.0, vendored) VC generator, SMT-LIB obligations raced on z3 4.8.12 / z3 5.1.0 / cvc5 1.0.3"}],
"checks":checks,"not_applicable":na,
"notes":"Known findings and fixed defects: /verif/known_findings.txt. Seeded must-fail changes: /verif/seeded/."}
json.dump(m,open('/verif/MANIFEST.json','w'),indent=1)
print("claimed:",sorted(claimed))
