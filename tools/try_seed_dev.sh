#!/bin/bash
# tools/try_seed_dev.sh <patch> <prop>... : like try_seed.sh but on the scratch worktree /tmp/wtdev (created from /repo HEAD
# if missing), so that it can run while /repo is busy; evidence files are not written.
patch="$1"; shift
[ -d /tmp/wtdev ] || git -C /repo worktree add -q --detach /tmp/wtdev HEAD
git -C /tmp/wtdev checkout -q --detach $(git -C /repo rev-parse HEAD)
git -C /tmp/wtdev apply "$patch" || { echo "patch does not apply"; exit 3; }
for p in "$@"; do
  /verif/check --raw check -repo /tmp/wtdev -prop "$p" -no-evidence -no-conformance > /tmp/try_seed_dev_$p.out 2>&1; rc=$?
  echo "== $p exit=$rc"; grep -E "^(VIOLATION|UNDECIDED|VACUOUS|KNOWN|property=)" /tmp/try_seed_dev_$p.out | cut -c1-330
done
git -C /tmp/wtdev apply -R "$patch"
